#!/usr/bin/env python3
"""Runs every check against every behaviour-preserving patch in /verif/benign:
each must survive the repository's suite and every check must exit 0."""
import glob, json, os, subprocess, sys, time
sys.path.insert(0, "/verif/tools")
import seedcheck
ENV = seedcheck.ENV
WT = "/tmp/mw"
def sh(c, cwd=None, timeout=3600): return subprocess.run(c, shell=True, cwd=cwd, env=ENV, capture_output=True, text=True, timeout=timeout)
props = ["C01","C02","C03","C04","C05","C08","C11","C13","C14","C15","C17","C18","C19"]
ids = sys.argv[1:] or sorted(os.path.basename(p)[:-6] for p in glob.glob("/verif/benign/*.patch"))
bad = 0
for bid in ids:
    meta = json.load(open("/verif/benign/%s.json" % bid))
    sh("git checkout -- . && git clean -fdq", cwd=WT)
    r = sh("git apply /verif/benign/%s.patch && go build ./... && go vet ./..." % bid, cwd=WT)
    if r.returncode != 0:
        print(bid, "does not apply/build:", (r.stdout + r.stderr)[-300:]); meta["status"] = "does not build"; json.dump(meta, open("/verif/benign/%s.json" % bid, "w"), indent=1); continue
    r = sh("/verif/tools/baseline.py %s" % WT)
    meta["survives_suite"] = r.returncode == 0
    sh("git checkout -- . && git clean -fdq", cwd=WT)
    if r.returncode != 0:
        print(bid, "killed by the suite (not benign for the suite):", r.stdout.strip().splitlines()[1][:160]); json.dump(meta, open("/verif/benign/%s.json" % bid, "w"), indent=1); continue
    assert sh("git -C /repo status --porcelain").stdout.strip() == "", "/repo not clean"
    assert sh("git -C /repo apply /verif/benign/%s.patch" % bid).returncode == 0
    res = {}
    try:
        r = sh("cd /verif && ./check all quick")
        for p in props:
            res[p] = 2
        for l in r.stdout.splitlines():
            if l.startswith("check: C"):
                w = l.split()
                res[w[1]] = int(w[4])
        for p in props:
            if res[p] != 0:
                bad += 1
                print(bid, p, "ALARM exit", res[p], [l for l in r.stdout.splitlines() if l.strip().startswith("rules=")][:2])
    finally:
        sh("git -C /repo checkout -- . && git -C /repo clean -fdq")
    meta["checks_exit"] = res
    meta["silent"] = all(v == 0 for v in res.values())
    meta["at"] = time.strftime("%Y-%m-%dT%H:%M:%S")
    json.dump(meta, open("/verif/benign/%s.json" % bid, "w"), indent=1)
    print(bid, "silent" if meta["silent"] else "NOT SILENT", res)
sys.exit(1 if bad else 0)
