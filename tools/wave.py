#!/usr/bin/env python3
"""Wave runner: for each mutant (mutants/<id>.patch) or seeded change, check that it
survives the repository's own suite, then run the property's check against it."""
import json, os, subprocess, sys, glob
sys.path.insert(0, "/verif/tools")
import seedcheck
ENV = seedcheck.ENV
WT = "/tmp/mw"
def sh(c, cwd=None): return subprocess.run(c, shell=True, cwd=cwd, env=ENV, capture_output=True, text=True)
ids = sys.argv[2:] or sorted(os.path.basename(p)[:-6] for p in glob.glob("/verif/mutants/*.patch"))
tier = sys.argv[1] if len(sys.argv) > 1 else "quick"
if not os.path.isdir(WT):
    sh("git -C /repo worktree add -q --detach %s HEAD" % WT)
for sid in ids:
    mj = "/verif/mutants/%s.json" % sid
    meta = json.load(open(mj))
    sh("git checkout -q --detach $(git -C /repo rev-parse HEAD) && git checkout -- . && git clean -fdq", cwd=WT)
    r = sh("git apply /verif/mutants/%s.patch" % sid, cwd=WT)
    if r.returncode != 0:
        meta["status"] = "does not apply to the current tree"; json.dump(meta, open(mj, "w"), indent=1); print(sid, meta["status"]); continue
    r = sh("go build ./... && go vet ./...", cwd=WT)
    if r.returncode != 0:
        meta["status"] = "does not build"; json.dump(meta, open(mj, "w"), indent=1); print(sid, meta["status"], r.stdout[-300:], r.stderr[-300:]); continue
    r = sh("/verif/tools/baseline.py %s" % WT)
    meta["survives_suite"] = r.returncode == 0
    json.dump(meta, open(mj, "w"), indent=1)
    if r.returncode != 0:
        meta["status"] = "killed by the existing suite: " + r.stdout.strip().splitlines()[1][:200]
        json.dump(meta, open(mj, "w"), indent=1); print(sid, meta["status"]); continue
    sh("git checkout -- . && git clean -fdq", cwd=WT)
    seedcheck.run(sid, tier)
