#!/usr/bin/env python3
"""Run the repository's pinned suite and compare with /root/.vp/BASELINE.json.
Exit 0 when every stable-pass test passes. Usage: baseline.py [repo-dir]"""
import json, os, subprocess, sys
repo = sys.argv[1] if len(sys.argv) > 1 else "/repo"
env = dict(os.environ, GOFLAGS="-mod=mod", GOPROXY="off", GOSUMDB="off", GOTOOLCHAIN="local")
base = json.load(open("/root/.vp/BASELINE.json"))
p = subprocess.run(["go", "test", "-json", "-vet=off", "-count=1", "-timeout", "5m", "./..."], cwd=repo, env=env, capture_output=True, text=True)
res = {}
for line in p.stdout.splitlines():
    try:
        ev = json.loads(line)
    except Exception:
        continue
    if ev.get("Test") and ev.get("Action") in ("pass", "fail", "skip"):
        res[ev["Package"] + "::" + ev["Test"]] = ev["Action"]
bad = [t for t in base["stable_pass"] if res.get(t) != "pass"]
newly = [t for t in base.get("always_fail", []) if res.get(t) == "pass"]
print("baseline: %d/%d stable tests pass; %d results total" % (len(base["stable_pass"]) - len(bad), len(base["stable_pass"]), len(res)))
for t in bad:
    print("  NOT PASSING:", t, res.get(t))
for t in newly:
    print("  now passing (was always_fail):", t)
sys.exit(1 if bad else 0)
