#!/usr/bin/env python3
"""Regression over every recorded deliberate change: each seeded change and hand
mutant is run again against its own property's check and every check that has
caught it before (tools/seedcheck.py run; SEED_REPO=<scratch worktree> to leave
/repo alone; VERIF_QUICK_S for the budget)."""
import json, glob, os, subprocess, sys
sys.path.insert(0, "/verif/tools")
import seedcheck
ids = []
for d in sorted(glob.glob("/verif/seeded/*/meta.json")):
    m = json.load(open(d)); ids.append((os.path.basename(os.path.dirname(d)), m))
for f in sorted(glob.glob("/verif/mutants/*.json")):
    m = json.load(open(f)); ids.append((os.path.basename(f)[:-5], m))
for sid, m in ids:
    if m.get("survives_suite") is False or "killed" in str(m.get("status", "")):
        continue
    props = sorted(set([m["property"]] + m.get("detected_by", [])))
    props = [p for p in props if p in "C01 C02 C03 C04 C05 C08 C11 C13 C14 C15 C17 C18 C19".split()]
    before = m.get("detected_by", [])
    try:
        seedcheck.run(sid, "quick", props)
    except Exception as e:
        print(sid, "ERROR", e)
        subprocess.run("git -C /repo checkout -- . && git -C /repo clean -fdq", shell=True)
