#!/usr/bin/env python3
"""Writes /verif/MANIFEST.json (kept valid at all times)."""
import json
claimed = {
 "C01": ("4 (C01)", "C01.get C01.ret C01.state: every response and the full observable state after every step vs. a sequential key-to-item map"),
 "C02": ("4 (C02)", "C02.set C02.order C02.count: Query/Scan result multiset, typed sort order and Count vs. the model's matching set, on tables reached by arbitrary write histories"),
 "C03": ("4 (C03)", "C03.view C03.count: Scan and per-partition Query of every index, and its ItemCount, vs. the model's items owning all index keys, after every step"),
 "C04": ("4 (C04)", "C04.page C04.concat C04.stable C04.live: paginating actor interleaved with writers; concatenation vs. the implementation's own unpaginated answer; bounded termination"),
 "C05": ("4 (C05)", "C05.iff C05.class C05.noeffect: conditional writes decided by the model on the target item only, bystanders chosen to disagree; state equality after refusals"),
 "C08": ("4 (C08)", "C08.trace C08.alive: failing requests of every class injected at arbitrary points; full observable state before = after; client still answers"),
 "C13": ("4 (C13)", "C13.ident C13.reject C13.accept C13.invariant: adversarial key universes; typed-tuple identity; malformed keys rejected, well-formed ones never; key attributes invariant"),
 "C14": ("4 (C14)", "C14.in C14.out C14.frozen: pokes of every mutable location of retained request/response structures at arbitrary later points"),
 "C15": ("4 (C15)", "C15.err C15.batch C15.undo: arbitrary toggle sequences of the product's failure emulation interleaved with every operation kind"),
 "C17": ("4 (C17)", "C17.eq: the same plan executed in lock-step on a v1 and a v2 client, outcomes and observable states compared step by step, each also vs. the model"),
 "C18": ("4 (C18)", "C18.class C18.desc C18.empty C18.isolate: lifecycle histories over several tables and clients, delete+re-create under the same name, state of every table of every client after every step"),
 "C19": ("4 (C19)", "C19.write C19.get: batch applied to one client, its decomposition to a twin of the same SDK, states compared; BatchGet vs. the model's individual gets"),
}
na = {
 "C06": "pure function of (expression, item, bindings): no schedule, fault, interleaving or history in the statement; generating inputs for it would be property-based testing in simulator vocabulary (DESIGN.md section 5)",
 "C07": "pure function of (update expression, item, bindings) (DESIGN.md section 5)",
 "C09": "totality and strictness over byte strings is a statement about one pure function; its only fault-shaped clause (a rejected expression surfaces as an error or the documented panic and the client stays usable) is exercised under C08 (DESIGN.md section 5)",
 "C10": "write-then-read fidelity is a pure function of the value tree (DESIGN.md section 5)",
 "C11": "claimed in DESIGN.md section 4 (schedules: cooperative scheduler, porcupine, vector-clock race detector); its runner is not built yet, so it is not registered as a check at this commit",
 "C12": "decimal arithmetic and ordering are pure functions of the numerals (DESIGN.md section 5)",
 "C16": "acceptance or rejection is a pure function of the request (DESIGN.md section 5)",
 "C20": "which callback a (table, kind, text) triple selects is a pure function of the registrations (DESIGN.md section 5)",
}
import sys
have_c11 = len(sys.argv) > 1 and sys.argv[1] == "c11"
if have_c11:
    claimed["C11"] = ("4 (C11)", "C11.lin C11.dead C11.race: 2-4 real goroutines parked and released one at a time at instrumented statements and lock operations; recorded histories checked with porcupine against the model; vector-clock race detector over instrumented field accesses; deadlock and leaked-lock detection")
    del na["C11"]
checks = []
for pid in sorted(claimed):
    ref, what = claimed[pid]
    checks.append({
        "property_id": pid,
        "quick_cmd": "./check %s quick" % pid,
        "thorough_cmd": "./check %s thorough" % pid,
        "evidence_file": "/verif/evidence/%s.json" % pid,
        "replay_cmd_template": "./check replay {path}",
        "engine": "simrun",
        "level_claimed": {
            "category": "exploration",
            "text": "Seeded search over histories, interleavings of simulated callers and fault placements (deterministic simulation): " + what + ". A clean batch is evidence, not proof; every violation is minimised and replayable from its file.",
            "design_ref": "DESIGN.md section " + ref,
        },
        "level_note": "Trusted: the reference model (sim/model.go, sim/expr.go) for the workload fragment of DESIGN.md appendix A; the drivers' translation to SDK requests; the instrumenter preserving behaviour (self-test: repository suite on the instrumented copy). Verdicts use only values returned by the public API.",
        "technique": "deterministic simulation with fault injection: seeded plans of abstract commands from interleaved simulated callers and an injector, executed on the real library (map order and mutexes owned by the simulator), checked step by step against an executable reference model; delta-debugged replay files",
    })
m = {
 "version": 1,
 "setup_cmd": "./check setup",
 "hooks": {
  "guard": "none",
  "enable": "no hooks in /repo: the seams (map iteration order, mutex operations, yield points, access probes) are injected by /verif/rewriter into a scratch copy of the working tree at check time",
  "baseline_off_cmd": "cd /repo && go test -vet=off -count=1 ./...",
  "source_commits": [],
  "add_only": True,
 },
 "engines": [
  {"name": "simrun", "path": "/verif/sim", "serves_properties": sorted(claimed), "kind_free_text": "deterministic simulation runner (Go): seeded plans, actors, injector, reference model, oracles, ddmin minimiser, replay, 16 worker processes"},
  {"name": "simrewrite", "path": "/verif/rewriter", "serves_properties": sorted(claimed), "kind_free_text": "go/packages + go/ast instrumenter of a scratch copy; runtime in /verif/simrt"},
 ],
 "checks": checks,
 "not_applicable": [{"property_id": k, "reason": v} for k, v in sorted(na.items())],
 "notes": "See DESIGN.md. Known findings (recorded, not repaired) are listed in /verif/KNOWN_FINDINGS.txt with witness replays under /verif/known/; repaired defects are 'fix:' commits in /repo listed there as 'fixed:' lines.",
}
json.dump(m, open("/verif/MANIFEST.json", "w"), indent=1)
print("MANIFEST.json written:", len(checks), "checks")
