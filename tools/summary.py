#!/usr/bin/env python3
"""Writes /verif/waves/SUMMARY.md: which check caught which deliberate change."""
import glob, json, os
rows = []
for f in sorted(glob.glob("/verif/seeded/*/meta.json")):
    m = json.load(open(f))
    runs = m.get("check_runs", {})
    det = sorted({k.split("/")[0] + " (" + ",".join(sorted(set(" ".join(r["rules"]).split()))) + ")" for k, r in runs.items() if r["exit"] == 1})
    own = [r for k, r in runs.items() if k.startswith(m["property"] + "/")]
    t = min([r["wall_s"] for k, r in runs.items() if r["exit"] == 1] or [0])
    need = (m.get("needs_to_manifest", "").strip().splitlines() or [""])[0][:110]
    rows.append((m["id"], m["property"], "sub-agent", need, "; ".join(det) or "not detected", t))
for f in sorted(glob.glob("/verif/mutants/*.json")):
    m = json.load(open(f))
    if m.get("status"):
        rows.append((m["id"], m["property"], "hand-written" if m["id"].startswith("m-") else "revert of fix", m["what"][:110], m["status"][:90], 0))
        continue
    runs = m.get("check_runs", {})
    det = sorted({k.split("/")[0] + " (" + ",".join(sorted(set(" ".join(r["rules"]).split()))) + ")" for k, r in runs.items() if r["exit"] == 1})
    t = min([r["wall_s"] for k, r in runs.items() if r["exit"] == 1] or [0])
    rows.append((m["id"], m["property"], "hand-written" if m["id"].startswith("m-") else "revert of fix", m["what"][:110], "; ".join(det) or ("not detected" if runs else "not run"), t))
out = ["| Change | Targets | Origin | What it is | Caught by (rules) | check wall s |", "|---|---|---|---|---|---|"]
for r in rows:
    out.append("| %s | %s | %s | %s | %s | %s |" % (r[0], r[1], r[2], r[3].replace("|", "/"), r[4], r[5] or ""))
os.makedirs("/verif/waves", exist_ok=True)
open("/verif/waves/SUMMARY.md", "w").write("\n".join(out) + "\n")
det = sum(1 for r in rows if "not detected" not in r[4] and "killed" not in r[4] and "does not" not in r[4] and r[4] != "not run")
print(len(rows), "changes;", det, "caught;", sum(1 for r in rows if "killed" in r[4]), "killed by the suite;", sum(1 for r in rows if r[4] == "not detected"), "not detected")
