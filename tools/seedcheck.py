#!/usr/bin/env python3
"""Confirm and evaluate one seeded change.

  seedcheck.py confirm <src_dir> <id> <property> [demo_dest]
      src_dir holds patch.diff, demo_test.go, notes.md (written by a sub-agent).
      Confirms in a scratch worktree of /repo that the patch applies, builds, vets,
      passes the 201-test baseline, and that the demo fails with it and passes
      without it; then stores it as /verif/seeded/<id>/ with meta.json.

  seedcheck.py run <id> [tier] [properties...]
      Applies /verif/seeded/<id>/patch.diff (or /verif/mutants/<id>.patch) to /repo,
      runs the checks (default: the property in meta.json, quick), restores /repo,
      and records the outcome in meta.json / waves/results.jsonl.
"""
import json, os, re, shutil, subprocess, sys, time

ENV = dict(os.environ, GOFLAGS="-mod=mod", GOPROXY="off", GOSUMDB="off", GOTOOLCHAIN="local",
           VERIF_EVIDENCE_DIR="/tmp/verif-wave-evidence")  # /verif/evidence is for runs on the unchanged tree only
VERIF = "/verif"


def sh(cmd, cwd=None, timeout=1800):
    p = subprocess.run(cmd, shell=True, cwd=cwd, env=ENV, capture_output=True, text=True, timeout=timeout)
    return p.returncode, p.stdout + p.stderr


def demo_dest_from(text):
    m = re.search(r"([\w./-]+_test\.go)", "\n".join(text.splitlines()[:15]))
    return m.group(1) if m else None


def confirm(src, sid, prop, dest=None):
    wt = "/tmp/sv-" + sid
    sh("git -C /repo worktree remove --force %s" % wt)
    rc, out = sh("git -C /repo worktree add -q --detach %s HEAD" % wt)
    assert rc == 0, out
    meta = {"id": sid, "property": prop, "source": "sub-agent given only the property text and a scratch worktree", "confirmed": {}}
    try:
        patch = os.path.join(src, "patch.diff")
        demo = os.path.join(src, "demo_test.go")
        dtext = open(demo).read()
        dest = dest or demo_dest_from(dtext)
        assert dest, "cannot tell where the demo goes"
        dest = re.sub(r"^/tmp/mut/C\d+/", "", dest)
        meta["demo_dest"] = dest
        rc, out = sh("git apply --check %s && git apply %s" % (patch, patch), cwd=wt)
        meta["confirmed"]["applies"] = rc == 0
        assert rc == 0, "patch does not apply: " + out
        rc, out = sh("go build ./... && go vet ./...", cwd=wt)
        meta["confirmed"]["builds_and_vets"] = rc == 0
        assert rc == 0, "build/vet: " + out[-2000:]
        rc, out = sh("%s/tools/baseline.py %s" % (VERIF, wt))
        meta["confirmed"]["baseline_201_pass"] = rc == 0
        meta["confirmed"]["baseline_output"] = out.strip().splitlines()[0] if out.strip() else ""
        assert rc == 0, "baseline: " + out[-2000:]
        os.makedirs(os.path.dirname(os.path.join(wt, dest)), exist_ok=True)
        shutil.copy(demo, os.path.join(wt, dest))
        pkg = "./" + os.path.dirname(dest)
        race = " -race" if "-race" in dtext[:600] or prop == "C11" else ""
        cmd = "go test%s -vet=off -count=1 -run 'Demo|Seeded|Zz|ZZ' %s" % (race, pkg)
        # run the whole file's tests: find test names
        names = re.findall(r"func (Test\w+)\(", dtext)
        cmd = "go test%s -vet=off -count=1 -run '^(%s)$' %s" % (race, "|".join(names), pkg)
        rc1, out1 = sh(cmd, cwd=wt)
        meta["confirmed"]["demo_fails_with_change"] = rc1 != 0
        sh("git apply -R %s" % patch, cwd=wt)
        rc2, out2 = sh(cmd, cwd=wt)
        meta["confirmed"]["demo_passes_without_change"] = rc2 == 0
        meta["confirmed"]["demo_cmd"] = cmd
        assert rc1 != 0, "demo does not fail with the change: " + out1[-1500:]
        assert rc2 == 0, "demo does not pass without the change: " + out2[-1500:]
        d = os.path.join(VERIF, "seeded", sid)
        os.makedirs(d, exist_ok=True)
        shutil.copy(patch, os.path.join(d, "patch.diff"))
        shutil.copy(demo, os.path.join(d, os.path.basename(dest)))
        if os.path.exists(os.path.join(src, "notes.md")):
            meta["needs_to_manifest"] = open(os.path.join(src, "notes.md")).read()[:3000]
        meta["confirmed"]["at"] = time.strftime("%Y-%m-%dT%H:%M:%S")
        json.dump(meta, open(os.path.join(d, "meta.json"), "w"), indent=1)
        print("confirmed", sid, "->", d)
        return 0
    except AssertionError as e:
        print("REJECTED", sid, ":", e)
        return 1
    finally:
        sh("git -C /repo worktree remove --force %s" % wt)


def run(sid, tier="quick", props=None):
    d = os.path.join(VERIF, "seeded", sid)
    if os.path.isdir(d):
        patch = os.path.join(d, "patch.diff")
        meta = json.load(open(os.path.join(d, "meta.json")))
    else:
        patch = os.path.join(VERIF, "mutants", sid + ".patch")
        meta = json.load(open(os.path.join(VERIF, "mutants", sid + ".json")))
    props = props or [meta["property"]]
    repo = os.environ.get("SEED_REPO", "/repo")  # a scratch worktree, when /repo itself is busy
    rc, out = sh("git -C %s status --porcelain" % repo)
    assert out.strip() == "", repo + " is not clean: " + out
    rc, out = sh("git -C %s apply %s" % (repo, patch))
    assert rc == 0, out
    results = {}
    try:
        for p in props:
            t0 = time.time()
            rc, out = sh("cd %s && rm -rf replays/%s-* && VERIF_REPO=%s ./check %s %s" % (VERIF, p, repo, p, tier), timeout=3600)
            viol = [l for l in out.splitlines() if l.startswith("VIOLATION")]
            rules = sorted(set(re.findall(r"rules=\[([^\]]*)\]", out)))
            first = ""
            for l in out.splitlines():
                if l.strip().startswith("rules="):
                    first = l.strip()[:400]
                    break
            results[p] = {"tier": tier, "exit": rc, "violations": len(viol), "rules": rules, "wall_s": round(time.time() - t0, 1), "first": first}
            print(sid, p, tier, "exit", rc, "violations", len(viol), rules, first[:200])
            if rc == 2:
                print(out[-1500:])
    finally:
        sh("git -C %s checkout -- . && git -C %s clean -fdq" % (repo, repo))
    meta.setdefault("check_runs", {})
    for p, r in results.items():
        meta["check_runs"][p + "/" + tier] = r
    meta["detected_by"] = sorted({k.split("/")[0] for k, r in meta["check_runs"].items() if r["exit"] == 1})
    json.dump(meta, open(os.path.join(d if os.path.isdir(d) else os.path.join(VERIF, "mutants"), "meta.json" if os.path.isdir(d) else sid + ".json"), "w"), indent=1)
    os.makedirs(os.path.join(VERIF, "waves"), exist_ok=True)
    with open(os.path.join(VERIF, "waves", "results.jsonl"), "a") as f:
        f.write(json.dumps({"id": sid, "at": time.strftime("%Y-%m-%dT%H:%M:%S"), "results": results}) + "\n")
    return 0


if __name__ == "__main__":
    if sys.argv[1] == "confirm":
        sys.exit(confirm(*sys.argv[2:]))
    if sys.argv[1] == "run":
        sys.exit(run(sys.argv[2], sys.argv[3] if len(sys.argv) > 3 else "quick", sys.argv[4:] or None))
