module mutgen

go 1.20
