// mutgen lists and applies simple syntactic mutations of Go files (used by
// tools/mutwave.py to measure the checks' sensitivity; DESIGN.md 11.12).
//
//	mutgen list  <file>...            one line per mutation: id<TAB>file<TAB>line<TAB>description
//	mutgen apply <file> <index>       prints the mutated file on stdout
package main

import (
	"fmt"
	"go/ast"
	"go/parser"
	"go/token"
	"os"
	"strconv"
	"strings"
)

type mut struct {
	start, end int // byte offsets to replace
	repl       string
	line       int
	desc       string
}

var swaps = map[token.Token]string{
	token.EQL: "!=", token.NEQ: "==", token.LSS: "<=", token.LEQ: "<", token.GTR: ">=", token.GEQ: ">",
	token.LAND: "||", token.LOR: "&&", token.ADD: "-", token.SUB: "+",
}

func mutations(path string) ([]mut, []byte) {
	src, err := os.ReadFile(path)
	if err != nil {
		panic(err)
	}
	fset := token.NewFileSet()
	f, err := parser.ParseFile(fset, path, src, parser.ParseComments)
	if err != nil {
		panic(err)
	}
	off := func(p token.Pos) int { return fset.Position(p).Offset }
	var ms []mut
	ast.Inspect(f, func(n ast.Node) bool {
		switch x := n.(type) {
		case *ast.BinaryExpr:
			if r, ok := swaps[x.Op]; ok {
				// skip string concatenation and error comparisons with nil (mostly compile or trivially killed)
				if id, ok := x.Y.(*ast.Ident); ok && id.Name == "nil" {
					return true
				}
				if bl, ok := x.Y.(*ast.BasicLit); ok && bl.Kind == token.STRING && (x.Op == token.ADD) {
					return true
				}
				ms = append(ms, mut{off(x.OpPos), off(x.OpPos) + len(x.Op.String()), r, fset.Position(x.OpPos).Line, x.Op.String() + " -> " + r})
			}
		case *ast.UnaryExpr:
			if x.Op == token.NOT {
				ms = append(ms, mut{off(x.OpPos), off(x.OpPos) + 1, "", fset.Position(x.OpPos).Line, "drop !"})
			}
		case *ast.ExprStmt:
			if c, ok := x.X.(*ast.CallExpr); ok {
				name := ""
				switch fn := c.Fun.(type) {
				case *ast.Ident:
					name = fn.Name
				case *ast.SelectorExpr:
					name = fn.Sel.Name
				}
				if name == "Lock" || name == "Unlock" || name == "RLock" || name == "RUnlock" || name == "panic" {
					return true
				}
				ms = append(ms, mut{off(x.Pos()), off(x.End()), "_ = 0", fset.Position(x.Pos()).Line, "drop call statement " + name})
			}
		case *ast.IfStmt:
			if x.Init == nil && x.Else == nil {
				// condition forced false: the guarded block never runs (only for blocks that are not error returns)
				if be, ok := x.Cond.(*ast.BinaryExpr); ok {
					if id, ok := be.Y.(*ast.Ident); ok && id.Name == "nil" {
						if l, ok := be.X.(*ast.Ident); ok && l.Name == "err" {
							return true
						}
					}
				}
				ms = append(ms, mut{off(x.Cond.Pos()), off(x.Cond.End()), "false && (" + string(src[off(x.Cond.Pos()):off(x.Cond.End())]) + ")", fset.Position(x.Pos()).Line, "if never taken"})
			}
		case *ast.BasicLit:
			if x.Kind == token.INT && (x.Value == "0" || x.Value == "1") {
				v := "1"
				if x.Value == "1" {
					v = "0"
				}
				ms = append(ms, mut{off(x.Pos()), off(x.End()), v, fset.Position(x.Pos()).Line, x.Value + " -> " + v})
			}
		case *ast.DeferStmt:
			// deferred unlock dropped: the lock is never released
			if sel, ok := x.Call.Fun.(*ast.SelectorExpr); ok && (sel.Sel.Name == "Unlock" || sel.Sel.Name == "RUnlock") {
				ms = append(ms, mut{off(x.Pos()), off(x.End()), "_ = 0", fset.Position(x.Pos()).Line, "drop deferred " + sel.Sel.Name})
			}
		}
		return true
	})
	return ms, src
}

func main() {
	if len(os.Args) < 3 {
		fmt.Fprintln(os.Stderr, "usage: mutgen list <file>... | mutgen apply <file> <index>")
		os.Exit(2)
	}
	switch os.Args[1] {
	case "list":
		for _, p := range os.Args[2:] {
			ms, _ := mutations(p)
			for i, m := range ms {
				fmt.Printf("%d\t%s\t%d\t%s\n", i, p, m.line, m.desc)
			}
		}
	case "apply":
		ms, src := mutations(os.Args[2])
		i, _ := strconv.Atoi(os.Args[3])
		m := ms[i]
		var sb strings.Builder
		sb.Write(src[:m.start])
		sb.WriteString(m.repl)
		sb.Write(src[m.end:])
		fmt.Print(sb.String())
	}
}
