#!/usr/bin/env python3
"""Writes /verif/benign/*.patch: behaviour-preserving changes of truora/minidyn on
which every check must stay silent (DESIGN.md section 7). Uses the scratch
worktree /tmp/mw (created from /repo HEAD if missing)."""
import subprocess, json, os, re
WT = "/tmp/mw"
if not os.path.isdir(WT):
    subprocess.run("git -C /repo worktree add -q --detach %s HEAD" % WT, shell=True, check=True)


def sh(c):
    return subprocess.run(c, shell=True, cwd=WT, capture_output=True, text=True)


def ben(name, what, edits, regex=False):
    sh("git checkout -- . && git clean -fdq")
    for f, old, new in edits:
        p = os.path.join(WT, f)
        s = open(p).read()
        if regex:
            s2 = re.sub(old, new, s)
        else:
            if old not in s:
                print("SKIP", name, "pattern missing in", f)
                return
            s2 = s.replace(old, new)
        open(p, "w").write(s2)
    d = sh("git diff").stdout
    os.makedirs("/verif/benign", exist_ok=True)
    open("/verif/benign/%s.patch" % name, "w").write(d)
    json.dump({"id": name, "what": what}, open("/verif/benign/%s.json" % name, "w"), indent=1)
    print("wrote", name, len(d))


T = "core/table.go"
V2 = "aws-v2/client/client.go"
ben("b-binary-insert", "setItem inserts the new key at its sorted position instead of append+sort", [(T, """		t.SortedKeys = append(t.SortedKeys, key)
		sort.Strings(t.SortedKeys)""", """		pos := sort.SearchStrings(t.SortedKeys, key)
		t.SortedKeys = append(t.SortedKeys, "")
		copy(t.SortedKeys[pos+1:], t.SortedKeys[pos:])
		t.SortedKeys[pos] = key""")])
ben("b-reworded-errors", "error messages reworded", [
    ("core/types.go", 'errors.New("number of conditions on the keys is invalid")', 'errors.New("the number of conditions on the keys is not valid")'),
    (V2, '"Cannot do operations on a non-existent table"', '"Requested table does not exist"'),
    ("aws-v1/client/client.go", '"Cannot do operations on a non-existent table"', '"Requested table does not exist"')])
ben("b-rwmutex-reads", "v2 client uses a RWMutex; GetItem and DescribeTable (which only read) take the read lock", [
    (V2, "	mu                    sync.Mutex", "	mu                    sync.RWMutex"),
    (V2, "		mu:                sync.Mutex{},", "		mu:                sync.RWMutex{},"),
    (V2, """func (fd *Client) GetItem(ctx context.Context, input *dynamodb.GetItemInput, opt ...func(*dynamodb.Options)) (*dynamodb.GetItemOutput, error) {
	fd.mu.Lock()
	defer fd.mu.Unlock()""", """func (fd *Client) GetItem(ctx context.Context, input *dynamodb.GetItemInput, opt ...func(*dynamodb.Options)) (*dynamodb.GetItemOutput, error) {
	fd.mu.RLock()
	defer fd.mu.RUnlock()"""),
    (V2, """func (fd *Client) DescribeTable(ctx context.Context, input *dynamodb.DescribeTableInput, ops ...func(*dynamodb.Options)) (*dynamodb.DescribeTableOutput, error) {
	fd.mu.Lock()
	defer fd.mu.Unlock()""", """func (fd *Client) DescribeTable(ctx context.Context, input *dynamodb.DescribeTableInput, ops ...func(*dynamodb.Options)) (*dynamodb.DescribeTableOutput, error) {
	fd.mu.RLock()
	defer fd.mu.RUnlock()""")])
ben("b-other-escape", "the internal key escapes with %-sequences instead of backslashes", [
    ("core/key_schema.go", "var hashKeyEscaper = strings.NewReplacer(`\\`, `\\\\`, \".\", `\\.`)", "var hashKeyEscaper = strings.NewReplacer(\"%\", \"%25\", \".\", \"%2E\")")])
ben("b-sorted-index-loop", "Put maintains the indexes in sorted name order", [(T, """	for _, index := range t.Indexes {
		err := index.putData(key, item)
		if err != nil {
			return nil, types.NewError("ValidationException", err.Error(), nil)
		}
	}

	return item, nil""", """	names := make([]string, 0, len(t.Indexes))
	for name := range t.Indexes {
		names = append(names, name)
	}

	sort.Strings(names)

	for _, name := range names {
		err := t.Indexes[name].putData(key, item)
		if err != nil {
			return nil, types.NewError("ValidationException", err.Error(), nil)
		}
	}

	return item, nil""")])
ben("b-put-no-attributes", "v2 PutItem returns no Attributes unless ReturnValues=ALL_OLD", [(V2, """	return &dynamodb.PutItemOutput{
		Attributes: mapTypesToDynamoMapItem(item),
	}, mapKnownError(err)""", """	if string(input.ReturnValues) != "ALL_OLD" {
		return &dynamodb.PutItemOutput{}, mapKnownError(err)
	}

	return &dynamodb.PutItemOutput{
		Attributes: mapTypesToDynamoMapItem(item),
	}, mapKnownError(err)""")])
ben("b-nil-maps", "the v2 mapper returns nil instead of empty attribute maps (LastEvaluatedKey, absent items)", [("aws-v2/client/mapper.go", """func mapTypesToDynamoMapItem(input map[string]*types.Item) map[string]dynamodbtypes.AttributeValue {
	output := map[string]dynamodbtypes.AttributeValue{}
""", """func mapTypesToDynamoMapItem(input map[string]*types.Item) map[string]dynamodbtypes.AttributeValue {
	if len(input) == 0 {
		return nil
	}

	output := map[string]dynamodbtypes.AttributeValue{}
""")])
ben("b-renamed-field", "index.refs renamed to index.entries", [("core/index.go", r"\brefs\b", "entries"), ("core/table.go", r"\.refs\b", ".entries"), ("core/table_test.go", r"\brefs:", "entries:")], regex=True)
ben("b-update-validates-before-eval-copy", "Update copies the item before building oldItem (statement order)", [(T, """	oldItem := copyItem(item)

	// the expression is evaluated on a copy, the stored item changes only when the whole update succeeds
	item = copyItem(item)
""", """	// the expression is evaluated on a copy, the stored item changes only when the whole update succeeds
	oldItem := item
	item = copyItem(item)
""")])
sh("git checkout -- . && git clean -fdq")
