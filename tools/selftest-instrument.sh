#!/usr/bin/env bash
# Instrumentation preserves behaviour: the repository's suite on the rewritten
# copy (simrt in pass-through mode) gives the same per-test outcome as on the
# plain tree. Exit 0 same, 2 different.
set -u
export GOFLAGS=-mod=mod GOPROXY=off GOSUMDB=off GOTOOLCHAIN=local
VERIF="$(cd "$(dirname "$0")/.." && pwd)"; REPO="${VERIF_REPO:-/repo}"
tmp="$(mktemp -d)"; trap 'rm -rf "$tmp"' EXIT
[ -x "$VERIF/bin/simrewrite" ] || (cd "$VERIF/rewriter" && mkdir -p "$VERIF/bin" && go build -o "$VERIF/bin/simrewrite" .) || exit 2
rsync -a --exclude .git "$REPO/" "$tmp/plain/"; rsync -a --exclude .git "$REPO/" "$tmp/instr/"
"$VERIF/bin/simrewrite" -dir "$tmp/instr" -simrt "$VERIF/simrt" -access >"$tmp/rw.log" 2>&1 || { cat "$tmp/rw.log"; echo "rewrite failed"; exit 2; }
res() { (cd "$1" && go test -json -vet=off -count=1 ./... 2>/dev/null) | python3 -c "
import sys,json
for l in sys.stdin:
    try: e=json.loads(l)
    except Exception: continue
    if e.get('Test') and e.get('Action') in ('pass','fail'): print(e['Package'].replace('/simrt',''), e['Test'], e['Action'])
" | sort; }
res "$tmp/plain" >"$tmp/a"; res "$tmp/instr" >"$tmp/b"
if cmp -s "$tmp/a" "$tmp/b"; then echo "instrumentation self-test PASS: $(wc -l <"$tmp/a") test results identical on the plain and the instrumented tree"; exit 0; fi
echo "instrumentation self-test FAIL"; diff "$tmp/a" "$tmp/b" | head; exit 2
