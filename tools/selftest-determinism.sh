#!/usr/bin/env bash
# Determinism self-test (DESIGN.md section 7): for every step-atomic property,
# N seeded runs executed in fresh processes at GOMAXPROCS 1, 4 and 16; the
# (run seed, event-log hash, steps, verdict) lines must be identical.
# Then 30 processes on one seed. Any difference is a harness bug: exit 2.
set -u
SIMRUN="$1"; PROPS="${2:-C01 C02 C03 C04 C05 C08 C11 C13 C14 C15 C17 C18 C19}"
N="${VERIF_DET_RUNS:-200}"
fail=0
tmp="$(mktemp -d)"; trap 'rm -rf "$tmp"' EXIT
for p in $PROPS; do
  for gmp in 1 4 16; do
    GOMAXPROCS=$gmp "$SIMRUN" -prop "$p" -det "$N" -seed 42 -known /verif/KNOWN_FINDINGS.txt >"$tmp/$p.$gmp" 2>&1 &
  done
  wait
  if cmp -s "$tmp/$p.1" "$tmp/$p.4" && cmp -s "$tmp/$p.1" "$tmp/$p.16"; then
    echo "determinism $p: $N runs x 3 GOMAXPROCS settings identical ($(md5sum <"$tmp/$p.1" | cut -c1-8))"
  else
    echo "determinism $p: DIFFERENT event logs"; diff "$tmp/$p.1" "$tmp/$p.16" | head -5; fail=1
  fi
done
# many processes, one seed
p="${PROPS%% *}"
for i in $(seq 1 30); do
  GOMAXPROCS=$(( (i % 3) * 6 + 1 )) "$SIMRUN" -prop "$p" -det 20 -seed 7 -known /verif/KNOWN_FINDINGS.txt >"$tmp/many.$i" 2>&1 &
done
wait
for i in $(seq 2 30); do cmp -s "$tmp/many.1" "$tmp/many.$i" || { echo "determinism: process $i differs on seed 7"; fail=1; }; done
[ $fail = 0 ] && echo "determinism self-test PASS" && exit 0
echo "determinism self-test FAIL"; exit 2
