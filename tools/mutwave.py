#!/usr/bin/env python3
"""Sampled syntactic mutation run (DESIGN.md 11.12).

  mutwave.py <n> [seed] [file-substring]

Draws n mutations (bin/mutgen: swapped comparison/logic/arithmetic operators,
dropped '!', dropped call statements, ifs never taken, 0<->1, dropped deferred
unlocks) of the library files the claimed properties are anchored in, applies
each to a scratch worktree, and records whether it builds, whether the
repository's own 201-test baseline kills it, and which checks report a
violation (`./check all quick`, short budgets). Results: waves/mutwave.jsonl.
"""
import json, os, random, subprocess, sys, time
ENV = dict(os.environ, GOFLAGS="-mod=mod", GOPROXY="off", GOSUMDB="off", GOTOOLCHAIN="local")
WT = "/tmp/mutwt"
FILES = """core/table.go core/index.go core/key_schema.go aws-v1/client/client.go aws-v1/client/mapper.go aws-v1/client/minidyn.go
aws-v2/client/client.go aws-v2/client/mapper.go aws-v2/client/minidyn.go interpreter/language/evaluator.go interpreter/language/environment.go
interpreter/language/functions.go interpreter/language/object.go interpreter/language.go interpreter/native.go""".split()


def sh(c, cwd=None, timeout=3600, env=None):
    p = subprocess.run(c, shell=True, cwd=cwd, env=env or ENV, capture_output=True, text=True, timeout=timeout)
    return p.returncode, p.stdout + p.stderr


def main():
    n = int(sys.argv[1]); seed = int(sys.argv[2]) if len(sys.argv) > 2 else 1
    only = sys.argv[3] if len(sys.argv) > 3 else ""
    sh("git -C /repo worktree remove --force %s" % WT)
    rc, out = sh("git -C /repo worktree add -q --detach %s HEAD" % WT); assert rc == 0, out
    rc, out = sh("/verif/bin/mutgen list " + " ".join(f for f in FILES if only in f), cwd=WT); assert rc == 0, out
    muts = [l.split("\t") for l in out.strip().splitlines()]
    random.Random(seed).shuffle(muts)
    done = set()
    if os.path.exists("/verif/waves/mutwave.jsonl"):
        for l in open("/verif/waves/mutwave.jsonl"):
            r = json.loads(l); done.add((r["file"], r["index"]))
    budget = os.environ.get("VERIF_QUICK_S", "12")
    k = 0
    try:
        for idx, f, line, desc in muts:
            if k >= n:
                break
            if (f, int(idx)) in done:
                continue
            k += 1
            rec = {"file": f, "index": int(idx), "line": int(line), "what": desc, "at": time.strftime("%Y-%m-%dT%H:%M:%S")}
            rc, src = sh("/verif/bin/mutgen apply %s %s" % (f, idx), cwd=WT)
            open(os.path.join(WT, f), "w").write(src)
            rc, out = sh("go build ./... && go vet ./...", cwd=WT)
            if rc != 0:
                rec["status"] = "does not build"
            else:
                rc, out = sh("/verif/tools/baseline.py %s" % WT, timeout=900)
                if rc != 0:
                    rec["status"] = "killed by the suite"
                else:
                    env = dict(ENV, VERIF_REPO=WT, VERIF_EVIDENCE_DIR="/tmp/mutwave-evidence", VERIF_REPLAYS_DIR="/tmp/mutwave-replays", VERIF_QUICK_S=budget)
                    rc, out = sh("cd /verif && ./check all quick", env=env, timeout=3600)
                    res = {}
                    for l in out.splitlines():
                        if l.startswith("check: C"):
                            w = l.split(); res[w[1]] = int(w[4])
                    rec["checks"] = res
                    rec["caught_by"] = sorted(p for p, v in res.items() if v == 1)
                    rec["trouble"] = sorted(p for p, v in res.items() if v not in (0, 1))
                    rec["status"] = "caught" if rec["caught_by"] else ("refused" if not res or rec["trouble"] else "survives")
                    sh("rm -rf /tmp/mutwave-replays /tmp/mutwave-evidence")
            sh("git checkout -- .", cwd=WT)
            with open("/verif/waves/mutwave.jsonl", "a") as fo:
                fo.write(json.dumps(rec) + "\n")
            print(k, f, line, desc, "=>", rec["status"], rec.get("caught_by", ""), flush=True)
    finally:
        sh("git -C /repo worktree remove --force %s" % WT)


main()
