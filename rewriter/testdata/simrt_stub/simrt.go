// Package simrt (stub): pass-through runtime used only to self-test simrewrite.
// The real runtime has exactly the same exported signatures.
package simrt

import (
	"reflect"
	"sort"
	"sync"
)

// MapKeys returns the keys of m, sorted when K is a string/integer/float kind.
func MapKeys[K comparable, V any](site uint32, m map[K]V) []K {
	keys := make([]K, 0, len(m))
	for k := range m {
		keys = append(keys, k)
	}
	if len(keys) < 2 {
		return keys
	}
	var less func(a, b reflect.Value) bool
	switch reflect.TypeOf(keys[0]).Kind() {
	case reflect.String:
		less = func(a, b reflect.Value) bool { return a.String() < b.String() }
	case reflect.Int, reflect.Int8, reflect.Int16, reflect.Int32, reflect.Int64:
		less = func(a, b reflect.Value) bool { return a.Int() < b.Int() }
	case reflect.Uint, reflect.Uint8, reflect.Uint16, reflect.Uint32, reflect.Uint64, reflect.Uintptr:
		less = func(a, b reflect.Value) bool { return a.Uint() < b.Uint() }
	case reflect.Float32, reflect.Float64:
		less = func(a, b reflect.Value) bool { return a.Float() < b.Float() }
	default:
		return keys
	}
	sort.Slice(keys, func(i, j int) bool { return less(reflect.ValueOf(keys[i]), reflect.ValueOf(keys[j])) })
	return keys
}

func Step(site uint32) {}

func Lock(site uint32, mu *sync.Mutex)       { mu.Lock() }
func Unlock(site uint32, mu *sync.Mutex)     { mu.Unlock() }
func RWLock(site uint32, mu *sync.RWMutex)   { mu.Lock() }
func RWUnlock(site uint32, mu *sync.RWMutex) { mu.Unlock() }
func RLock(site uint32, mu *sync.RWMutex)    { mu.RLock() }
func RUnlock(site uint32, mu *sync.RWMutex)  { mu.RUnlock() }

func Access[T any](site uint32, p *T, write bool) {}
