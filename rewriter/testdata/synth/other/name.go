package other

func (b *Box) Name() string { return "" }
