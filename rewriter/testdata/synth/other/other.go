// Package other stands in for a second library package (cross-package fields).
package other

// Box is shared state declared outside package core.
type Box struct {
	N    int
	Tags map[string]bool
}

// Bump mutates the box.
func (b *Box) Bump() { b.N++ }
