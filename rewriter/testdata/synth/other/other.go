// Package other stands in for a second library package (cross-package fields).
package other

// Box is shared state declared outside package core.
type Box struct {
	N    int
	Tags map[string]bool
}

// Bump mutates the box.
func (b *Box) Bump() { b.N++ }

// Counter is package-level state touched from package core.
var Counter int
