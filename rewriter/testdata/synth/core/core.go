// Package core is a fixture exercising every construct simrewrite handles.
package core

import (
	"bytes"
	"errors"
	"fmt"
	"regexp"
	"sort"
	"strings"
	"sync"

	"github.com/truora/minidyn/other"
)

type key struct{ a, b string }

type named map[string]int

// ID is a named float key type.
type ID float64

type inner struct {
	n   int
	arr [3]int
}

type base struct{ hits int }

// Table is the shared structure.
type Table struct {
	sync.Mutex
	*base
	rw    sync.RWMutex
	pm    *sync.Mutex
	data  map[string]int
	byID  map[ID]string
	sk    map[key]int
	items []int
	next  *Table
	inner inner
	box   *other.Box
	Name  string
	calls int
}

type index struct{ n int }

func (i index) get() int { return i.n }

var registry = map[string]int{"a": 1, "b": 2}

var pkgHook = func(m map[string]int) (s string) {
	for k := range m {
		s += k
	}
	return
}

// NewTable builds a table.
func NewTable() *Table {
	return &Table{
		base: &base{}, pm: &sync.Mutex{},
		data: map[string]int{"x": 1, "y": 2, "z": 3},
		byID: map[ID]string{2.5: "b", 1.5: "a"},
		sk:   map[key]int{{"a", "b"}: 1},
		box:  &other.Box{Tags: map[string]bool{}},
	}
}

func (t *Table) source() map[string]int { t.calls++; return t.data }

// Ranges covers all range forms.
func (t *Table) Ranges() string {
	var out []string
	for k, v := range t.data {
		v := v
		out = append(out, fmt.Sprint(k, v))
	}
	for k := range t.data {
		out = append(out, k)
	}
	for _, v := range t.data {
		out = append(out, fmt.Sprint(v))
	}
	n := 0
	for range t.source() {
		n++
	}
	out = append(out, fmt.Sprint(n, t.calls))
	for t.Name, t.inner.n = range t.data {
	}
	out = append(out, fmt.Sprint(t.Name != "", t.inner.n > 0))
	var k string
	var v int
	for k, v = range named(t.data) {
		out = append(out, fmt.Sprint(k, v))
	}
	for id, s := range t.byID {
		out = append(out, fmt.Sprint(id, s))
	}
	for sk := range t.sk {
		out = append(out, sk.a)
	}
	out = append(out, pkgHook(registry))
	sort.Strings(out)
	return strings.Join(out, ",")
}

// Labels covers labelled map ranges and deletion during iteration.
func (t *Table) Labels() int {
	total := 0
outer:
	for k := range t.data {
		for k2, v := range t.data {
			if k2 == k {
				continue outer
			}
			if v > 100 {
				break outer
			}
			total += v
		}
	}
	m := map[int]int{1: 1, 2: 2, 3: 3, 4: 4}
	seen := 0
	for k := range m {
		seen++
		for j := range m {
			if j != k {
				delete(m, j)
			}
		}
	}
	return total*10 + seen
}

// Aliases keeps pre-1.22 loop variable sharing observable.
func (t *Table) Aliases() (string, int) {
	var ptrs []*string
	var fns []func() int
	for k, v := range t.data {
		ptrs = append(ptrs, &k)
		fns = append(fns, func() int { return v })
	}
	same := true
	for _, p := range ptrs {
		same = same && p == ptrs[0]
	}
	sum := 0
	for _, f := range fns {
		sum += f()
	}
	return fmt.Sprint(same), sum % 3
}

// Locks covers every mutex form.
func (t *Table) Locks() int {
	t.Lock()
	defer t.Unlock()
	t.rw.RLock()
	t.rw.RUnlock()
	t.rw.Lock()
	defer t.rw.Unlock()
	t.pm.Lock()
	t.pm.Unlock()
	if t.next != nil {
		t.next.rw.Lock()
		defer (t.next.rw).Unlock()
		(*t.next).Mutex.Lock()
		t.next.Mutex.Unlock()
	}
	var mu sync.Mutex
	p := &mu
	mu.Lock()
	p.Unlock()
	func() {
		p.Lock()
		defer p.Unlock()
	}()
	return 1
}

// Flow covers control flow shapes for Step placement.
func (t *Table) Flow(x interface{}) (r int) {
	switch v := x.(type) {
	case int:
		r = v
	case string:
		r = len(v)
	case nil:
		r++
	default:
	}
	switch {
	case r > 100:
		return 100
	case r > 50:
		r = 50
		fallthrough
	case r > 60:
		r++
	}
	if r == 0 {
		r = 1
	} else if r == 1 {
		r = 2
	} else if y := r * 2; y > 10 {
		r = y
	} else {
		r = -y
	}
	i := 0
loop:
	if i < 3 {
		i++
		goto loop
	}
	defer func() {
		if e := recover(); e != nil {
			r = -1
		}
	}()
	for {
		i++
		if i > 5 {
			break
		}
	}
	return r + i
}

func sign(n int) int {
	switch {
	case n < 0:
		return -1
	case n > 0:
		return 1
	default:
		return 0
	}
}

func forever(n int) int {
	for {
		if n > 3 {
			return n
		}
		n++
	}
}

func empty() {}

// Accesses covers read/write classification and probe safety.
func (t *Table) Accesses() int {
	if t.next != nil && t.next.Name == "x" {
		return -1
	}
	var nilT *Table
	if nilT != nil && nilT.next.Name == "" {
		return -2
	}
	t.data["w"] = 4
	t.calls++
	t.items = append(t.items, 3, 1, 2)
	delete(t.data, "w")
	copy(t.items, []int{9})
	sort.Ints(t.items)
	sort.Sort(sort.IntSlice(t.items))
	p := &t.inner
	p.n = 7
	t.inner.arr[1] = 2
	t.hits += 2
	t.box.N = 5
	t.box.Tags["k"] = true
	t.box.Bump()
	if q := t.next; q != nil && q.Name != "" {
		return -3
	}
	ix := index{n: 4}
	got := ix.n + index{n: 1}.n + ix.get() + NewTable().calls
	func() { t.calls += got }()
	for i := t.calls; i < t.calls+1; i++ {
		t.inner.n += i
	}
	switch t.Name {
	case t.box.Name():
	}
	return t.calls + t.items[0] + t.inner.n + t.hits + t.box.N + sign(forever(got)) + len(t.box.Tags)
}

// gotoRange has a labelled map range whose label is a goto target; it must be
// left alone (a goto cannot jump into the block the rewrite would create).
func gotoRange(m map[string]int) int {
	n := 0
again:
	for k := range m {
		n += len(k)
	}
	if n < 5 {
		goto again
	}
	return n
}

// Package-level state: probed with -access regardless of -access-types, except
// sync values, error sentinels and compiled regexps.
var (
	scratch     []byte
	buf         bytes.Buffer
	errSentinel = errors.New("sentinel")
	wordRE      = regexp.MustCompile(`^\w+$`)
	guardMu     sync.Mutex
	limits      = map[string]int{"a": 1}
	defaults    = inner{n: 1}
)

// Globals reads and writes package-level variables of this and another package.
func Globals(s string) string {
	guardMu.Lock()
	defer guardMu.Unlock()
	scratch = append(scratch[:0], s...)
	buf.Reset()
	buf.WriteString(s)
	if !wordRE.MatchString(s) {
		return errSentinel.Error()
	}
	limits[s]++
	defaults.arr[1] = len(scratch)
	other.Counter++
	n := other.Counter + limits[s] + defaults.n
	return fmt.Sprint(string(scratch), "/", n, defaults.arr[1])
}
