package core

import (
	"strings"
	"testing"
)

func TestRanges(t *testing.T) {
	got := NewTable().Ranges()
	want := "1,1.5a,2,2.5b,3,3 1,a,ab,true true,x,x1,x1,y,y2,y2,z,z3,z3"
	if got != want && got != strings.Replace(want, "ab", "ba", 1) {
		t.Fatalf("got %q", got)
	}
}

func TestLabels(t *testing.T) {
	got := NewTable().Labels()
	if got%10 != 1 {
		t.Fatalf("deletion during iteration must stop the loop, got %d", got)
	}
}

func TestAliases(t *testing.T) {
	same, _ := NewTable().Aliases()
	if same != "true" {
		t.Fatalf("go 1.20 module: &k must alias across iterations, got %s", same)
	}
}

func TestLocks(t *testing.T) {
	tb := NewTable()
	tb.next = NewTable()
	if tb.Locks() != 1 {
		t.Fatal("locks")
	}
	tb.Lock() // everything must have been released
	tb.rw.Lock()
	tb.next.rw.Lock()
}

func TestFlow(t *testing.T) {
	tb := NewTable()
	for x, want := range map[interface{}]int{0: 7, 1: 8, "abc": 0, nil: 8, 7: 20, 2.0: 7, 55: 108, 200: 100} {
		if got := tb.Flow(x); got != want {
			t.Errorf("Flow(%v) = %d, want %d", x, got, want)
		}
	}
	empty()
}

func TestAccesses(t *testing.T) {
	if got := NewTable().Accesses(); got != 38 {
		t.Fatalf("got %d", got)
	}
}

func TestGotoRange(t *testing.T) {
	if got := gotoRange(map[string]int{"ab": 1, "c": 2}); got != 6 {
		t.Fatalf("got %d", got)
	}
}

func TestGlobals(t *testing.T) {
	if got := Globals("hi"); got != "hi/3 2" {
		t.Fatalf("got %q", got)
	}
	if got := Globals("h i"); got != "sentinel" {
		t.Fatalf("got %q", got)
	}
}
