module github.com/truora/minidyn

go 1.20
