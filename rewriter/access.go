package main

import (
	"go/ast"
	"go/token"
	"go/types"
	"sort"
)

// probe is one simrt.Access call to be placed before a statement.
type probe struct {
	text   string     // original text, e.g. "t.data", "keyScratch", "language.TRUE"
	addr   ast.Expr   // fresh copy of the selector with embedded fields spelled out
	guards []ast.Expr // `p != nil` for every pointer the selector dereferences
	owner  string     // named struct type declaring the field, or pkgVarOwner
	write  bool
	pos    token.Pos
}

// pkgVarOwner is the "type" of access sites for package-level variables.
const pkgVarOwner = "<pkgvar>"

// probes implements rule E for statement s (which sits in a statement list):
// one simrt.Access per distinct shared-field selector and per distinct library
// package-level variable in the part of s that is evaluated before any nested
// statement list.
func (r *rewriter) probes(s ast.Stmt) []ast.Stmt {
	inner := s
	for {
		l, ok := inner.(*ast.LabeledStmt)
		if !ok {
			break
		}
		inner = l.Stmt
	}
	writes := map[ast.Expr]bool{}
	var hdr []ast.Node
	add := func(ns ...ast.Node) {
		for _, n := range ns {
			hdr = append(hdr, n)
		}
	}
	switch x := inner.(type) {
	case *ast.BlockStmt, *ast.SelectStmt:
	case *ast.IfStmt:
		add(x.Init, x.Cond)
	case *ast.ForStmt:
		add(x.Init, x.Cond, x.Post)
	case *ast.RangeStmt:
		add(x.X)
		if x.Tok == token.ASSIGN { // `for x.k, x.v = range m` assigns on every iteration
			add(x.Key, x.Value)
			r.markWrite(writes, x.Key)
			r.markWrite(writes, x.Value)
		}
	case *ast.SwitchStmt:
		add(x.Init, x.Tag)
		for _, c := range x.Body.List {
			for _, e := range c.(*ast.CaseClause).List {
				add(e)
			}
		}
	case *ast.TypeSwitchStmt:
		add(x.Init, x.Assign)
	default:
		add(inner)
	}

	var cands []ast.Expr // field selectors, qualified identifiers, package-level variable identifiers
	for _, h := range hdr {
		if h == nil {
			continue
		}
		ast.Inspect(h, func(n ast.Node) bool {
			switch n := n.(type) {
			case *ast.FuncLit:
				return false // its statements are handled in their own lists
			case *ast.SelectorExpr:
				cands = append(cands, n)
				if r.info.Selections[n] == nil {
					return false // qualified identifier: nothing below it
				}
			case *ast.Ident:
				if r.pkgVar(n) != nil {
					cands = append(cands, n)
				}
			case *ast.AssignStmt:
				if n.Tok != token.DEFINE {
					for _, l := range n.Lhs {
						r.markWrite(writes, l)
					}
				}
			case *ast.IncDecStmt:
				r.markWrite(writes, n.X)
			case *ast.UnaryExpr:
				// taking an address is not an access by itself: counting it as a write
				// raised a false race on `return &packageLevelError` from two tasks
				// (a write THROUGH the pointer elsewhere is missed: a miss, never a
				// false alarm)
				_ = n
			case *ast.CallExpr:
				// x.mu.Lock(), pkgVar.RLock(): a lock operation evaluates the ADDRESS
				// of the mutex, it reads nothing that the mutex protects. Probing its
				// receiver put an unordered read in front of every acquisition.
				if sel, ok := unparen(n.Fun).(*ast.SelectorExpr); ok {
					if sl := r.info.Selections[sel]; sl != nil {
						if fn, isFn := sl.Obj().(*types.Func); isFn {
							if name, _ := mutexMethod(fn); name != "" {
								return false
							}
						}
					}
				}
				switch fun := unparen(n.Fun).(type) {
				case *ast.Ident: // append's first argument is a write only when assigned back,
					// and then the assignment's left-hand side already marks the same selector.
					if b, ok := r.info.Uses[fun].(*types.Builtin); ok && len(n.Args) > 0 && (b.Name() == "delete" || b.Name() == "copy") {
						r.markWrite(writes, n.Args[0])
					}
				case *ast.SelectorExpr:
					if id, ok := fun.X.(*ast.Ident); ok {
						if pn, ok := r.info.Uses[id].(*types.PkgName); ok && pn.Imported().Path() == "sort" {
							for _, a := range n.Args {
								r.markWrite(writes, a)
							}
						}
					}
					// buf.Reset(), buf.WriteString(..): a pointer-receiver method of a
					// non-library type called on a package-level variable mutates it.
					if s := r.info.Selections[fun]; s != nil && s.Kind() == types.MethodVal {
						recv := unparen(fun.X)
						_, ptrRecv := s.Obj().Type().(*types.Signature).Recv().Type().(*types.Pointer)
						// (mutex methods reached through an embedded sync.Mutex/RWMutex are
						// lock sites, not accesses: probing them put an unordered "write" in
						// front of every RLock of a struct{ sync.RWMutex; ... })
						isMutex := false
						if fn, isFn := s.Obj().(*types.Func); isFn {
							if name, _ := mutexMethod(fn); name != "" {
								isMutex = true
							}
						}
						if v := r.pkgVar(recv); v != nil && ptrRecv && !isMutex && !r.libType(v.Type()) {
							writes[recv] = true
						}
					}
				}
			}
			return true
		})
	}
	// Inner selectors end first, which is also their evaluation order.
	sort.SliceStable(cands, func(i, j int) bool { return cands[i].End() < cands[j].End() })

	var found []*probe
	byText := map[string]*probe{}
	for _, c := range cands {
		var p *probe
		var skip string
		if r.pkgVar(c) != nil { // not subject to -access-types; &X never faults, so no guards
			p = &probe{text: types.ExprString(c), addr: copyChain(c), owner: pkgVarOwner, pos: c.Pos()}
		} else if sel, ok := c.(*ast.SelectorExpr); ok {
			p, skip = r.analyse(sel, s.Pos())
		} else {
			continue
		}
		switch {
		case skip == "out-of-scope":
		case skip == "filtered":
			r.tab.FilteredAccess++
		case skip != "":
			r.tab.SkippedAccess++
			r.tab.SkippedReasons[skip]++
		default:
			p.write = writes[c]
			if q := byText[p.text]; q != nil {
				q.write = q.write || p.write
			} else {
				byText[p.text] = p
				found = append(found, p)
			}
		}
	}

	var out []ast.Stmt
	for _, p := range found {
		id := r.newSite("access", p.pos, p.text, p.owner, p.write)
		flag := "false"
		if p.write {
			flag = "true"
		}
		var st ast.Stmt = &ast.ExprStmt{X: simrtCall("Access", id, &ast.UnaryExpr{Op: token.AND, X: p.addr}, ident(flag))}
		if len(p.guards) > 0 { // never introduce a nil dereference the original might have avoided
			cond := p.guards[0]
			for _, g := range p.guards[1:] {
				cond = &ast.BinaryExpr{X: cond, Op: token.LAND, Y: g}
			}
			st = &ast.IfStmt{Cond: cond, Body: &ast.BlockStmt{List: []ast.Stmt{st}}}
		}
		out = append(out, st)
	}
	return out
}

// markWrite marks the selector at the root of e (through parentheses, index
// and slice expressions) as written, and with it every enclosing struct value
// it is a part of (writing x.f.g also modifies the struct x.f). A library
// package-level variable at the root of e is marked as written as well.
func (r *rewriter) markWrite(writes map[ast.Expr]bool, e ast.Expr) {
	if v := r.pkgVarRoot(e); v != nil {
		writes[v] = true
	}
	for {
		switch x := e.(type) {
		case *ast.ParenExpr:
			e = x.X
			continue
		case *ast.IndexExpr:
			e = x.X
			continue
		case *ast.SliceExpr:
			e = x.X
			continue
		case *ast.CallExpr: // conversion, e.g. sort.Sort(byName(x.f))
			if tv, ok := r.info.Types[x.Fun]; ok && tv.IsType() && len(x.Args) == 1 {
				e = x.Args[0]
				continue
			}
		case *ast.SelectorExpr:
			writes[x] = true
			if t := r.info.TypeOf(x.X); t != nil {
				if _, isStruct := t.Underlying().(*types.Struct); isStruct {
					e = x.X
					continue
				}
			}
		}
		return
	}
}

// pkgVar returns the variable if e (an identifier or a qualified identifier
// pkg.Var) denotes a package-level variable of a library package that is worth
// probing: not a sync.* value, not an error sentinel, not a *regexp.Regexp.
func (r *rewriter) pkgVar(e ast.Expr) *types.Var {
	var id *ast.Ident
	switch e := e.(type) {
	case *ast.Ident:
		id = e
	case *ast.SelectorExpr:
		if r.info.Selections[e] != nil {
			return nil
		}
		id = e.Sel
	default:
		return nil
	}
	v, ok := r.info.Uses[id].(*types.Var)
	if !ok || v.IsField() || v.Pkg() == nil || !r.lib[v.Pkg().Path()] || v.Parent() != v.Pkg().Scope() {
		return nil
	}
	t := v.Type()
	if types.Identical(t, types.Universe.Lookup("error").Type()) {
		return nil
	}
	if p, ok := t.Underlying().(*types.Pointer); ok {
		t = p.Elem()
	}
	if n, ok := types.Unalias(t).(*types.Named); ok && n.Obj().Pkg() != nil {
		switch path := n.Obj().Pkg().Path(); {
		case path == "sync", path == "sync/atomic":
			return nil
		case path == "regexp" && n.Obj().Name() == "Regexp":
			return nil
		case path == "strings" && n.Obj().Name() == "Replacer":
			// documented as safe for concurrent use by multiple goroutines
			return nil
		}
	}
	return v
}

// pkgVarRoot returns the identifier (or qualified identifier) of the library
// package-level variable that e is rooted at through index, slice, field
// selector, dereference, parenthesis and conversion expressions, or nil.
func (r *rewriter) pkgVarRoot(e ast.Expr) ast.Expr {
	for {
		if r.pkgVar(e) != nil {
			return e
		}
		switch x := e.(type) {
		case *ast.ParenExpr:
			e = x.X
		case *ast.IndexExpr:
			e = x.X
		case *ast.SliceExpr:
			e = x.X
		case *ast.StarExpr:
			e = x.X
		case *ast.SelectorExpr:
			if s := r.info.Selections[x]; s == nil || s.Kind() != types.FieldVal {
				return nil
			}
			e = x.X
		case *ast.CallExpr:
			if tv, ok := r.info.Types[x.Fun]; !ok || !tv.IsType() || len(x.Args) != 1 {
				return nil
			}
			e = x.Args[0]
		default:
			return nil
		}
	}
}

// libType reports whether t (or *t) is a named type declared in a library package.
func (r *rewriter) libType(t types.Type) bool {
	if p, ok := t.Underlying().(*types.Pointer); ok {
		t = p.Elem()
	}
	n, ok := types.Unalias(t).(*types.Named)
	return ok && n.Obj().Pkg() != nil && r.lib[n.Obj().Pkg().Path()]
}

// analyse decides whether selector sel (inside the statement starting at
// stmtPos) gets a probe. skip is "" (probe returned), "out-of-scope" (not a
// library struct field at all), "filtered" (owning type not in -access-types)
// or the reason the selector could not be instrumented.
func (r *rewriter) analyse(sel *ast.SelectorExpr, stmtPos token.Pos) (p *probe, skip string) {
	s := r.info.Selections[sel]
	if s == nil || s.Kind() != types.FieldVal {
		return nil, "out-of-scope" // qualified identifier or method value
	}
	fld, ok := s.Obj().(*types.Var)
	if !ok || !fld.IsField() || fld.Pkg() == nil || !r.lib[fld.Pkg().Path()] || isMutex(fld.Type()) {
		return nil, "out-of-scope" // SDK struct, or a mutex (covered by lock sites)
	}
	p = &probe{text: types.ExprString(sel), pos: sel.Pos(), owner: fieldOwner(s)}
	switch {
	case p.owner == "":
		return nil, "out-of-scope" // field of an anonymous struct
	case !r.accessTypes[p.owner] && !r.accessTypes["*"]:
		return nil, "filtered"
	}
	addr, addressable, reason := r.chain(sel, stmtPos, p)
	switch {
	case reason != "":
		return nil, reason
	case !addressable:
		return nil, "not addressable"
	}
	p.addr = addr
	return p, ""
}

// chain returns a position-less copy of e, which must consist only of
// identifiers, field selectors, parentheses and dereferences, with promoted
// fields spelled out. It records nil guards and the owner of the last field in p.
func (r *rewriter) chain(e ast.Expr, stmtPos token.Pos, p *probe) (cp ast.Expr, addressable bool, reason string) {
	switch e := e.(type) {
	case *ast.Ident:
		switch obj := r.info.Uses[e].(type) {
		case *types.Var:
			// The probe runs before the statement, so the variable must already exist there.
			if obj.Parent() != r.pkg.Types.Scope() && obj.Pos() >= stmtPos {
				return nil, false, "declared inside the statement"
			}
			return ident(e.Name), true, ""
		case *types.PkgName:
			return ident(e.Name), false, ""
		}
		return nil, false, "root is not a variable"
	case *ast.ParenExpr:
		x, a, why := r.chain(e.X, stmtPos, p)
		return &ast.ParenExpr{X: x}, a, why
	case *ast.StarExpr:
		x, _, why := r.chain(e.X, stmtPos, p)
		if why != "" {
			return nil, false, why
		}
		p.guards = append(p.guards, notNil(x))
		return &ast.StarExpr{X: x}, true, ""
	case *ast.SelectorExpr:
		x, a, why := r.chain(e.X, stmtPos, p)
		if why != "" {
			return nil, false, why
		}
		s := r.info.Selections[e]
		if s == nil { // pkg.Var
			_, isVar := r.info.Uses[e.Sel].(*types.Var)
			return &ast.SelectorExpr{X: x, Sel: ident(e.Sel.Name)}, isVar, ""
		}
		if s.Kind() != types.FieldVal {
			return nil, false, "method value in chain"
		}
		t := s.Recv()
		for _, i := range s.Index() {
			if ptr, ok := t.Underlying().(*types.Pointer); ok {
				p.guards = append(p.guards, notNil(x))
				a, t = true, ptr.Elem()
			}
			f := t.Underlying().(*types.Struct).Field(i)
			x, t = &ast.SelectorExpr{X: x, Sel: ident(f.Name())}, f.Type()
		}
		return x, a, ""
	}
	return nil, false, "call or index in chain"
}

// fieldOwner names the struct type that declares the field selected by s
// ("" for an anonymous struct).
func fieldOwner(s *types.Selection) (owner string) {
	t := s.Recv()
	for _, i := range s.Index() {
		if ptr, ok := t.Underlying().(*types.Pointer); ok {
			t = ptr.Elem()
		}
		owner = ""
		if n, ok := types.Unalias(t).(*types.Named); ok {
			owner = n.Obj().Name()
		}
		t = t.Underlying().(*types.Struct).Field(i).Type()
	}
	return owner
}

// notNil builds `x != nil` on a deep copy of x (x itself ends up inside the probe).
func notNil(x ast.Expr) ast.Expr {
	return &ast.BinaryExpr{X: copyChain(x), Op: token.NEQ, Y: ident("nil")}
}

func copyChain(e ast.Expr) ast.Expr {
	switch e := e.(type) {
	case *ast.Ident:
		return ident(e.Name)
	case *ast.ParenExpr:
		return &ast.ParenExpr{X: copyChain(e.X)}
	case *ast.StarExpr:
		return &ast.StarExpr{X: copyChain(e.X)}
	case *ast.SelectorExpr:
		return &ast.SelectorExpr{X: copyChain(e.X), Sel: ident(e.Sel.Name)}
	}
	panic("copyChain: unexpected node")
}

func isMutex(t types.Type) bool {
	if p, ok := t.Underlying().(*types.Pointer); ok {
		t = p.Elem()
	}
	n, ok := types.Unalias(t).(*types.Named)
	return ok && n.Obj().Pkg() != nil && n.Obj().Pkg().Path() == "sync" && (n.Obj().Name() == "Mutex" || n.Obj().Name() == "RWMutex")
}
