package main

import (
	"fmt"
	"go/ast"
	"go/token"
	"go/types"
	"strings"

	"golang.org/x/tools/go/packages"
)

// guard implements rule D: the simulated scheduler only understands
// sync.Mutex / sync.RWMutex Lock/Unlock/RLock/RUnlock calls. Any other
// synchronisation or concurrency construct in library code means schedules
// would not be fully controlled, so rewriting is refused.
func guard(p *packages.Package, f *ast.File, rel func(string) string) error {
	info := p.TypesInfo
	var err error
	fail := func(pos token.Pos, what string) {
		if err == nil {
			at := p.Fset.Position(pos)
			err = fmt.Errorf("schedule seam incomplete: %s at %s:%d", what, rel(at.Filename), at.Line)
		}
	}
	called := map[*ast.SelectorExpr]bool{} // selectors in call position
	ast.Inspect(f, func(n ast.Node) bool {
		if err != nil {
			return false
		}
		if e, ok := n.(ast.Expr); ok {
			if t := info.TypeOf(e); t != nil {
				if _, isChan := t.Underlying().(*types.Chan); isChan {
					fail(e.Pos(), "channel-typed expression "+types.ExprString(e))
				}
			}
		}
		switch n := n.(type) {
		case *ast.ChanType:
			fail(n.Pos(), "channel type")
		case *ast.SendStmt:
			fail(n.Pos(), "channel send")
		case *ast.UnaryExpr:
			if n.Op == token.ARROW {
				fail(n.Pos(), "channel receive")
			}
		case *ast.SelectStmt:
			fail(n.Pos(), "select statement")
		case *ast.GoStmt:
			fail(n.Pos(), "go statement")
		case *ast.CallExpr:
			if sel, ok := unparen(n.Fun).(*ast.SelectorExpr); ok {
				called[sel] = true
			}
		case *ast.SelectorExpr:
			// Mutex methods must be plain calls: a method value or method
			// expression would escape the Lock/Unlock rewrite.
			if s := info.Selections[n]; s != nil {
				if fn, ok := s.Obj().(*types.Func); ok {
					if name, _ := mutexMethod(fn); name != "" && !(called[n] && s.Kind() == types.MethodVal) {
						fail(n.Pos(), "mutex method value "+types.ExprString(n))
					}
				}
			}
		case *ast.Ident:
			obj := info.Uses[n]
			if obj == nil || obj.Pkg() == nil {
				break
			}
			switch obj.Pkg().Path() {
			case "sync/atomic":
				// never blocks: the schedule stays decided by the simulator
				warn(p, n.Pos(), "sync/atomic."+obj.Name(), rel)
			case "sync":
				switch o := obj.(type) {
				case *types.TypeName:
					switch o.Name() {
					case "Mutex", "RWMutex":
					case "Map", "Once", "Pool":
						// internally synchronised, blocks only for the length of an
						// uninstrumented critical section (no yield point inside): cannot
						// park a task; not modelled as happens-before edges
						warn(p, n.Pos(), "sync."+o.Name(), rel)
					default:
						fail(n.Pos(), "sync."+o.Name())
					}
				case *types.Func:
					if name, _ := mutexMethod(o); name == "" {
						recv := ""
						if sig, ok := o.Type().(*types.Signature); ok && sig.Recv() != nil {
							recv = sig.Recv().Type().String()
						}
						if strings.Contains(recv, "sync.Map") || strings.Contains(recv, "sync.Once") || strings.Contains(recv, "sync.Pool") {
							break
						}
						fail(n.Pos(), "sync "+o.FullName())
					}
				case *types.Var: // a field of a sync type
				default:
					fail(n.Pos(), "sync."+obj.Name())
				}
			case "time":
				switch obj.Name() {
				case "AfterFunc", "NewTimer", "NewTicker", "Tick", "After":
					fail(n.Pos(), "time."+obj.Name())
				}
			}
		}
		return true
	})
	return err
}

// Warnings: non-blocking synchronisation the simulator does not model (listed
// in the site table; the checks report them as coverage).
var Warnings []string

func warn(p *packages.Package, pos token.Pos, what string, rel func(string) string) {
	at := p.Fset.Position(pos)
	Warnings = append(Warnings, fmt.Sprintf("%s at %s:%d", what, rel(at.Filename), at.Line))
}
