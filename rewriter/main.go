// Command simrewrite instruments a SCRATCH COPY of the minidyn repository so
// that the runtime package simrt controls map iteration order, mutex
// operations, pre-emption points and (optionally) shared-field access logging.
//
//	simrewrite -dir <scratch copy> -simrt <dir with simrt *.go> [-access] [-access-types a,b] [-sites out.json]
//
// Exit status: 0 on success, 2 with a diagnostic on any problem.
package main

import (
	"bytes"
	"encoding/json"
	"errors"
	"flag"
	"fmt"
	"go/ast"
	"go/format"
	"go/token"
	"os"
	"path/filepath"
	"sort"
	"strings"
	"time"

	"golang.org/x/tools/go/ast/astutil"
	"golang.org/x/tools/go/packages"
)

const defaultAccessTypes = "Client,Table,index,Native,Language,keySchema"

func main() {
	dir := flag.String("dir", "", "root of the scratch copy to rewrite in place")
	simrt := flag.String("simrt", "", "directory containing the simrt *.go files")
	access := flag.Bool("access", false, "also emit simrt.Access probes")
	accessTypes := flag.String("access-types", defaultAccessTypes, "comma-separated struct type names whose fields get access probes (* = every library struct)")
	sites := flag.String("sites", "", "site table output (default <dir>/simrt/sites.json)")
	flag.Parse()
	if *dir == "" || *simrt == "" || flag.NArg() != 0 {
		fmt.Fprintln(os.Stderr, "usage: simrewrite -dir <scratch copy> -simrt <simrt dir> [-access] [-access-types a,b] [-sites out.json]")
		os.Exit(2)
	}
	types := map[string]bool{}
	for _, t := range strings.Split(*accessTypes, ",") {
		if t = strings.TrimSpace(t); t != "" {
			types[t] = true
		}
	}
	if err := run(*dir, *simrt, *sites, *access, types); err != nil {
		fmt.Fprintln(os.Stderr, "simrewrite:", err)
		os.Exit(2)
	}
}

func run(dir, simrtSrc, sitesOut string, access bool, accessTypes map[string]bool) (err error) {
	start := time.Now()
	dir, err = filepath.Abs(dir)
	if err != nil {
		return err
	}
	if _, err := os.Stat(filepath.Join(dir, "go.mod")); err != nil {
		return fmt.Errorf("-dir is not a module root: %v", err)
	}
	if _, err := os.Stat(filepath.Join(dir, "simrt")); err == nil {
		return errors.New("-dir already contains simrt/ (already rewritten? start from a fresh copy)")
	}
	if err := copySimrt(simrtSrc, filepath.Join(dir, "simrt")); err != nil {
		return err
	}
	defer func() { // library files are only written on success; leave no half state behind
		if err != nil {
			os.RemoveAll(filepath.Join(dir, "simrt"))
		}
	}()

	fset := token.NewFileSet()
	pkgs, err := packages.Load(&packages.Config{
		Mode: packages.NeedName | packages.NeedFiles | packages.NeedCompiledGoFiles | packages.NeedSyntax |
			packages.NeedTypes | packages.NeedTypesInfo | packages.NeedImports | packages.NeedDeps | packages.NeedModule,
		Dir:   dir,
		Fset:  fset,
		Tests: false,
	}, "./...")
	if err != nil {
		return err
	}
	var lib []*packages.Package
	modPath := ""
	for _, p := range pkgs {
		for _, e := range p.Errors {
			return fmt.Errorf("load %s: %v", p.PkgPath, e)
		}
		if p.Module == nil || !p.Module.Main {
			return fmt.Errorf("package %s is not in the main module", p.PkgPath)
		}
		modPath = p.Module.Path
		if p.PkgPath != modPath+"/simrt" {
			lib = append(lib, p)
		}
	}
	if len(lib) == 0 {
		return errors.New("no library packages found")
	}
	sort.Slice(lib, func(i, j int) bool { return lib[i].PkgPath < lib[j].PkgPath })
	libPaths := map[string]bool{}
	for _, p := range lib {
		libPaths[p.PkgPath] = true
	}

	// D: refuse to continue if the schedule seam would be incomplete.
	roots := []string{dir}
	if real, err := filepath.EvalSymlinks(dir); err == nil && real != dir {
		roots = append(roots, real)
	}
	rel := func(name string) string {
		for _, root := range roots {
			if r, err := filepath.Rel(root, name); err == nil && !strings.HasPrefix(r, "..") {
				return filepath.ToSlash(r)
			}
		}
		return name
	}
	for _, p := range lib {
		for _, f := range sortedFiles(p) {
			if err := guard(p, f, rel); err != nil {
				return err
			}
		}
	}

	tab := newTable()
	type output struct {
		path string
		data []byte
	}
	var outs []output
	for _, p := range lib {
		for _, f := range sortedFiles(p) {
			name := fset.File(f.Pos()).Name()
			if strings.HasSuffix(name, "_test.go") {
				continue
			}
			r := &rewriter{
				pkg: p, info: p.TypesInfo, fset: fset, file: rel(name), tab: tab,
				lib: libPaths, access: access, accessTypes: accessTypes,
				simrtPath: modPath + "/simrt",
			}
			if err := r.rewriteFile(f); err != nil {
				return fmt.Errorf("%s: %v", r.file, err)
			}
			if r.used {
				astutil.AddImport(fset, f, r.simrtPath)
			}
			var buf bytes.Buffer
			if err := format.Node(&buf, fset, f); err != nil {
				return fmt.Errorf("%s: print: %v", r.file, err)
			}
			src, err := format.Source(buf.Bytes())
			if err != nil {
				return fmt.Errorf("%s: rewritten file does not format: %v", r.file, err)
			}
			outs = append(outs, output{name, src})
		}
	}
	// Nothing is written until every file has been rewritten successfully.
	for _, o := range outs {
		if err := os.WriteFile(o.path, o.data, 0o644); err != nil {
			return err
		}
	}
	if sitesOut == "" {
		sitesOut = filepath.Join(dir, "simrt", "sites.json")
	}
	tab.UnmodelledSync = Warnings
	var js bytes.Buffer
	enc := json.NewEncoder(&js)
	enc.SetIndent("", " ")
	enc.SetEscapeHTML(false) // keep "<pkgvar>" readable
	if err := enc.Encode(tab); err != nil {
		return err
	}
	if err := os.WriteFile(sitesOut, js.Bytes(), 0o644); err != nil {
		return err
	}
	fmt.Printf("simrewrite: %d files, %d sites %v, uncontrolled_map_ranges=%d, hoisted_map_ranges=%d, skipped_access=%d %v, filtered_access=%d, %s\n",
		len(outs), len(tab.Sites), tab.Counts, len(tab.Uncontrolled), len(tab.Hoisted), tab.SkippedAccess, tab.SkippedReasons, tab.FilteredAccess,
		time.Since(start).Round(time.Millisecond))
	return nil
}

// sortedFiles returns the syntax trees of p ordered by file name (from the FileSet).
func sortedFiles(p *packages.Package) []*ast.File {
	files := append([]*ast.File(nil), p.Syntax...)
	sort.Slice(files, func(i, j int) bool {
		return p.Fset.File(files[i].Pos()).Name() < p.Fset.File(files[j].Pos()).Name()
	})
	return files
}

func copySimrt(src, dst string) error {
	names, err := filepath.Glob(filepath.Join(src, "*.go"))
	if err != nil || len(names) == 0 {
		return fmt.Errorf("no *.go files in -simrt dir %q", src)
	}
	if err := os.MkdirAll(dst, 0o755); err != nil {
		return err
	}
	for _, n := range names {
		data, err := os.ReadFile(n)
		if err != nil {
			return err
		}
		if err := os.WriteFile(filepath.Join(dst, filepath.Base(n)), data, 0o644); err != nil {
			return err
		}
	}
	return nil
}

// site is one row of the site table.
type site struct {
	ID     uint32 `json:"id"`
	Kind   string `json:"kind"`
	File   string `json:"file"`
	Line   int    `json:"line"`
	Func   string `json:"func"`
	Detail string `json:"detail"`
	Type   string `json:"type,omitempty"` // access sites: named struct type owning the field
	Write  bool   `json:"write"`
}

type where struct {
	File   string `json:"file"`
	Line   int    `json:"line"`
	Func   string `json:"func"`
	Detail string `json:"detail"`
	Reason string `json:"reason"`
}

type table struct {
	Sites          []site         `json:"sites"`
	Counts         map[string]int `json:"counts"`
	Uncontrolled   []where        `json:"uncontrolled_map_ranges"`
	Hoisted        []where        `json:"hoisted_map_ranges"` // rewritten with loop variables kept per-loop, see rangeStmt
	SkippedAccess  int            `json:"skipped_access"`
	SkippedReasons map[string]int `json:"skipped_access_reasons"`
	FilteredAccess int            `json:"filtered_access"` // library fields whose owning type is not in -access-types
	UnmodelledSync []string       `json:"unmodelled_nonblocking_sync"`
}

func newTable() *table {
	t := &table{Sites: []site{}, Counts: map[string]int{}, Uncontrolled: []where{}, Hoisted: []where{}, SkippedReasons: map[string]int{}}
	for _, k := range []string{"maprange", "lock", "unlock", "rlock", "runlock", "step", "access"} {
		t.Counts[k] = 0
	}
	return t
}
