package main

import (
	"bytes"
	"fmt"
	"go/ast"
	"go/printer"
	"go/token"
	"go/types"
	"go/version"
	"strconv"
	"strings"

	"golang.org/x/tools/go/packages"
)

// rewriter rewrites one file. Site ids come from the shared table, so the
// order in which files are processed fixes the numbering.
type rewriter struct {
	pkg         *packages.Package
	info        *types.Info
	fset        *token.FileSet
	file        string // relative to -dir
	fn          string // enclosing function name
	tab         *table
	lib         map[string]bool // import paths of the library packages
	access      bool
	accessTypes map[string]bool
	simrtPath   string
	used        bool            // file needs the simrt import
	oldLoopVar  bool            // file has pre-Go-1.22 (per-loop) range variable semantics
	gotoLabels  map[string]bool // labels targeted by a goto somewhere in the file
}

func (r *rewriter) rewriteFile(f *ast.File) error {
	v := r.info.FileVersions[f]
	r.oldLoopVar = v == "" || version.Compare(v, "go1.22") < 0
	r.gotoLabels = map[string]bool{}
	var bad error
	ast.Inspect(f, func(n ast.Node) bool {
		switch n := n.(type) {
		case *ast.Ident:
			if n.Name == "simrt" && bad == nil {
				bad = fmt.Errorf("identifier %q at line %d collides with the runtime package name", n.Name, r.line(n.Pos()))
			}
		case *ast.BranchStmt:
			if n.Tok == token.GOTO && n.Label != nil {
				r.gotoLabels[n.Label.Name] = true
			}
		}
		return true
	})
	if bad != nil {
		return bad
	}
	stripComments(f)
	for _, d := range f.Decls {
		if fd, ok := d.(*ast.FuncDecl); ok {
			r.fn = funcName(fd)
			if fd.Body != nil {
				r.stmt(fd.Body)
			}
		} else {
			r.fn = "<package scope>"
			r.expr(d) // function literals in package-level initialisers
		}
	}
	return nil
}

// stripComments removes every comment except build constraints and //go:
// directives: position-less inserted nodes would otherwise attract stray comments.
func stripComments(f *ast.File) {
	var keep []*ast.CommentGroup
	for _, g := range f.Comments {
		var list []*ast.Comment
		for _, c := range g.List {
			if strings.HasPrefix(c.Text, "//go:") || strings.HasPrefix(c.Text, "// +build") || strings.HasPrefix(c.Text, "//line ") {
				list = append(list, c)
			}
		}
		if len(list) > 0 {
			keep = append(keep, &ast.CommentGroup{List: list})
		}
	}
	f.Comments, f.Doc = keep, nil
	ast.Inspect(f, func(n ast.Node) bool {
		switch n := n.(type) {
		case *ast.GenDecl:
			n.Doc = nil
		case *ast.FuncDecl:
			n.Doc = nil
		case *ast.Field:
			n.Doc, n.Comment = nil, nil
		case *ast.ImportSpec:
			n.Doc, n.Comment = nil, nil
		case *ast.ValueSpec:
			n.Doc, n.Comment = nil, nil
		case *ast.TypeSpec:
			n.Doc, n.Comment = nil, nil
		}
		return true
	})
}

func funcName(fd *ast.FuncDecl) string {
	if fd.Recv == nil || len(fd.Recv.List) == 0 {
		return fd.Name.Name
	}
	t := fd.Recv.List[0].Type
	for {
		switch x := t.(type) {
		case *ast.StarExpr:
			t = x.X
		case *ast.ParenExpr:
			t = x.X
		case *ast.IndexExpr:
			t = x.X
		case *ast.IndexListExpr:
			t = x.X
		case *ast.Ident:
			return x.Name + "." + fd.Name.Name
		default:
			return fd.Name.Name
		}
	}
}

func (r *rewriter) line(p token.Pos) int { return r.fset.Position(p).Line }

func (r *rewriter) newSite(kind string, pos token.Pos, detail, owner string, write bool) uint32 {
	id := uint32(len(r.tab.Sites) + 1)
	r.tab.Sites = append(r.tab.Sites, site{ID: id, Kind: kind, File: r.file, Line: r.line(pos), Func: r.fn, Detail: detail, Type: owner, Write: write})
	r.tab.Counts[kind]++
	r.used = true
	return id
}

// ---- small AST constructors (all position-less) ----

func ident(name string) *ast.Ident { return ast.NewIdent(name) }

func siteLit(id uint32) ast.Expr {
	return &ast.BasicLit{Kind: token.INT, Value: strconv.FormatUint(uint64(id), 10)}
}

func simrtCall(fn string, id uint32, args ...ast.Expr) *ast.CallExpr {
	return &ast.CallExpr{
		Fun:  &ast.SelectorExpr{X: ident("simrt"), Sel: ident(fn)},
		Args: append([]ast.Expr{siteLit(id)}, args...),
	}
}

func assign(tok token.Token, lhs, rhs []ast.Expr) *ast.AssignStmt {
	return &ast.AssignStmt{Lhs: lhs, Tok: tok, Rhs: rhs}
}

func isBlank(e ast.Expr) bool {
	id, ok := e.(*ast.Ident)
	return ok && id.Name == "_"
}

func unparen(e ast.Expr) ast.Expr {
	for {
		p, ok := e.(*ast.ParenExpr)
		if !ok {
			return e
		}
		e = p.X
	}
}

// ---- C: statement lists ----

// list rewrites a statement list: Step (and access probes) before every
// original statement, then the rewritten statement itself.
func (r *rewriter) list(in []ast.Stmt) []ast.Stmt {
	out := make([]ast.Stmt, 0, 2*len(in))
	for _, s := range in {
		id := r.newSite("step", s.Pos(), r.head(s), "", false)
		out = append(out, &ast.ExprStmt{X: simrtCall("Step", id)})
		if r.access {
			out = append(out, r.probes(s)...)
		}
		out = append(out, r.stmt(s))
	}
	return out
}

// head is the first line of the original statement, for the site table.
func (r *rewriter) head(s ast.Stmt) string {
	var buf bytes.Buffer
	printer.Fprint(&buf, r.fset, s)
	line, _, _ := strings.Cut(buf.String(), "\n")
	line = strings.Join(strings.Fields(line), " ")
	if len(line) > 80 {
		line = line[:77] + "..."
	}
	return line
}

// stmt rewrites a statement in place and returns its replacement (usually
// itself). Statements are only ever inserted into real statement lists, never
// into the clause list of a switch/select.
func (r *rewriter) stmt(s ast.Stmt) ast.Stmt {
	switch s := s.(type) {
	case nil:
		return nil
	case *ast.BlockStmt:
		s.List = r.list(s.List)
	case *ast.LabeledStmt:
		if rs, ok := s.Stmt.(*ast.RangeStmt); ok {
			return r.rangeStmt(rs, s)
		}
		s.Stmt = r.stmt(s.Stmt)
	case *ast.IfStmt:
		s.Init = r.stmt(s.Init)
		r.expr(s.Cond)
		r.stmt(s.Body)
		// `else if` -> `else { if }` so that the nested if sits in a statement
		// list and gets its own Step/probes at the right moment.
		if e, ok := s.Else.(*ast.IfStmt); ok {
			s.Else = &ast.BlockStmt{List: []ast.Stmt{e}}
		}
		if s.Else != nil {
			r.stmt(s.Else)
		}
	case *ast.ForStmt:
		s.Init = r.stmt(s.Init)
		r.expr(s.Cond)
		s.Post = r.stmt(s.Post)
		r.stmt(s.Body)
	case *ast.RangeStmt:
		return r.rangeStmt(s, nil)
	case *ast.SwitchStmt:
		s.Init = r.stmt(s.Init)
		r.expr(s.Tag)
		r.clauses(s.Body)
	case *ast.TypeSwitchStmt:
		s.Init = r.stmt(s.Init)
		s.Assign = r.stmt(s.Assign)
		r.clauses(s.Body)
	case *ast.SelectStmt: // rejected by the guard; handled for completeness
		r.clauses(s.Body)
	default: // simple statements: no nested statement lists except in function literals
		r.expr(s)
	}
	return s
}

func (r *rewriter) clauses(body *ast.BlockStmt) {
	for _, c := range body.List {
		switch c := c.(type) {
		case *ast.CaseClause:
			for _, e := range c.List {
				r.expr(e)
			}
			c.Body = r.list(c.Body)
		case *ast.CommClause:
			c.Comm = r.stmt(c.Comm)
			c.Body = r.list(c.Body)
		}
	}
}

// expr handles everything below statement level: mutex calls are replaced in
// place and function literal bodies are rewritten as statement lists.
func (r *rewriter) expr(n ast.Node) {
	if n == nil {
		return
	}
	ast.Inspect(n, func(n ast.Node) bool {
		switch n := n.(type) {
		case *ast.FuncLit:
			r.stmt(n.Body)
			return false
		case *ast.CallExpr:
			r.mutexCall(n)
			r.printCall(n)
		}
		return true
	})
}

// printCall: fmt.Print/Printf/Println of the library (its debug mode) formats
// its arguments as before and hands the text to simrt.Discard instead of the
// process's standard output, which belongs to the runner.
func (r *rewriter) printCall(c *ast.CallExpr) {
	sel, ok := unparen(c.Fun).(*ast.SelectorExpr)
	if !ok {
		return
	}
	pkg, ok := sel.X.(*ast.Ident)
	if !ok {
		return
	}
	pn, ok := r.info.Uses[pkg].(*types.PkgName)
	if !ok || pn.Imported().Path() != "fmt" {
		return
	}
	var to string
	switch sel.Sel.Name {
	case "Printf":
		to = "Sprintf"
	case "Println":
		to = "Sprintln"
	case "Print":
		to = "Sprint"
	default:
		return
	}
	id := r.newSite("print", c.Pos(), "fmt."+sel.Sel.Name, "", false)
	inner := &ast.CallExpr{Fun: &ast.SelectorExpr{X: ident(pkg.Name), Sel: ident(to)}, Args: c.Args, Ellipsis: c.Ellipsis}
	c.Fun = &ast.SelectorExpr{X: ident("simrt"), Sel: ident("Discard")}
	c.Args = []ast.Expr{siteLit(id), inner}
	c.Ellipsis = token.NoPos
}

// ---- A: map ranges ----

func (r *rewriter) rangeStmt(rs *ast.RangeStmt, lab *ast.LabeledStmt) ast.Stmt {
	isMap, reason, zeroKey := r.classifyRange(rs, lab)
	var id uint32
	detail := types.ExprString(rs.X)
	hoist := false
	if isMap && reason == "" {
		id = r.newSite("maprange", rs.Pos(), detail, "", false)
		// Before Go 1.22 the range variables are shared by all iterations. If
		// the body can observe that (closure capture, &v), keep it observable.
		hoist = r.oldLoopVar && rs.Tok == token.DEFINE && r.loopVarEscapes(rs)
	}
	r.expr(rs.Key)
	r.expr(rs.Value)
	r.expr(rs.X)
	r.stmt(rs.Body)
	if id == 0 {
		if isMap {
			r.tab.Uncontrolled = append(r.tab.Uncontrolled, where{r.file, r.line(rs.Pos()), r.fn, detail, reason})
		}
		if lab != nil {
			return lab
		}
		return rs
	}

	n := strconv.FormatUint(uint64(id), 10)
	m, k, v, ok := "__m"+n, "__k"+n, "__v"+n, "__ok"+n
	hasKey := rs.Key != nil && !isBlank(rs.Key)
	hasVal := rs.Value != nil && !isBlank(rs.Value)
	if hoist && hasKey {
		// The key becomes the range variable of the rewritten loop itself and so
		// keeps whatever loop-variable semantics the file's Go version has.
		k = rs.Key.(*ast.Ident).Name
	}
	elem := &ast.IndexExpr{X: ident(m), Index: ident(k)}
	notOK := &ast.UnaryExpr{Op: token.NOT, X: ident(ok)}
	skip := &ast.BlockStmt{List: []ast.Stmt{&ast.BranchStmt{Tok: token.CONTINUE}}}
	outer := []ast.Stmt{assign(token.DEFINE, []ast.Expr{ident(m)}, []ast.Expr{rs.X})}
	var body []ast.Stmt
	if hasVal {
		body = append(body,
			assign(token.DEFINE, []ast.Expr{ident(v), ident(ok)}, []ast.Expr{elem}),
			&ast.IfStmt{Cond: notOK, Body: skip})
	} else { // key-only: existence re-check without declaring a value temp
		body = append(body, &ast.IfStmt{
			Init: assign(token.DEFINE, []ast.Expr{ident("_"), ident(ok)}, []ast.Expr{elem}),
			Cond: notOK, Body: skip})
	}
	if hoist {
		r.tab.Hoisted = append(r.tab.Hoisted, where{r.file, r.line(rs.Pos()), r.fn, detail, "range variables shared across iterations (pre-1.22 semantics) and captured/address-taken"})
		if hasVal {
			// One value variable for the whole loop, declared without naming its
			// type: `v := m[<zero key>]` (its initial value is never observable).
			outer = append(outer, assign(token.DEFINE, []ast.Expr{rs.Value}, []ast.Expr{&ast.IndexExpr{X: ident(m), Index: zeroKey}}))
			body = append(body, assign(token.ASSIGN, []ast.Expr{ident(rs.Value.(*ast.Ident).Name)}, []ast.Expr{ident(v)}))
		}
	} else {
		var lhs, rhs []ast.Expr
		if hasKey {
			lhs, rhs = append(lhs, rs.Key), append(rhs, ident(k))
		}
		if hasVal {
			lhs, rhs = append(lhs, rs.Value), append(rhs, ident(v))
		}
		if len(lhs) > 0 {
			body = append(body, assign(rs.Tok, lhs, rhs))
		}
	}
	// The original body keeps its own block so that it may redeclare the loop
	// variables (`v := v`) exactly as it could before.
	body = append(body, rs.Body)
	var loop ast.Stmt = &ast.RangeStmt{
		Key: ident("_"), Value: ident(k), Tok: token.DEFINE,
		X:    simrtCall("MapKeys", id, ident(m)),
		Body: &ast.BlockStmt{List: body},
	}
	if lab != nil { // the label must stay on the loop for `continue L` / `break L`
		lab.Stmt = loop
		loop = lab
	}
	return &ast.BlockStmt{List: append(outer, loop)}
}

// classifyRange reports whether rs ranges over a map and, if so, why it cannot
// be put under simrt control ("" when it can). zeroKey is a literal usable as a
// key of the map.
func (r *rewriter) classifyRange(rs *ast.RangeStmt, lab *ast.LabeledStmt) (isMap bool, reason string, zeroKey ast.Expr) {
	t := r.info.TypeOf(rs.X)
	if t == nil {
		return false, "", nil
	}
	if _, ok := types.Unalias(t).(*types.TypeParam); ok {
		return true, "operand is a type parameter", nil
	}
	mt, ok := t.Underlying().(*types.Map)
	if !ok {
		return false, "", nil
	}
	b, ok := mt.Key().Underlying().(*types.Basic)
	if !ok || b.Info()&(types.IsString|types.IsInteger|types.IsFloat) == 0 {
		return true, "key type " + mt.Key().String() + " is not string/integer/float", nil
	}
	if lab != nil && r.gotoLabels[lab.Label.Name] {
		return true, "label is the target of a goto", nil
	}
	zeroKey = &ast.BasicLit{Kind: token.INT, Value: "0"}
	if b.Info()&types.IsString != 0 {
		zeroKey = &ast.BasicLit{Kind: token.STRING, Value: `""`}
	}
	return true, "", zeroKey
}

// loopVarEscapes reports whether a := range variable is referenced from a
// function literal or has its address taken (explicitly or implicitly) in the body.
func (r *rewriter) loopVarEscapes(rs *ast.RangeStmt) bool {
	vars := map[types.Object]bool{}
	for _, e := range []ast.Expr{rs.Key, rs.Value} {
		if id, ok := e.(*ast.Ident); ok && id.Name != "_" {
			if o := r.info.Defs[id]; o != nil {
				vars[o] = true
			}
		}
	}
	if len(vars) == 0 {
		return false
	}
	rooted := func(e ast.Expr) bool { // e is the variable or a part of it
		for {
			switch x := e.(type) {
			case *ast.ParenExpr:
				e = x.X
			case *ast.SelectorExpr:
				e = x.X
			case *ast.IndexExpr:
				e = x.X
			case *ast.Ident:
				return vars[r.info.Uses[x]]
			default:
				return false
			}
		}
	}
	escapes := false
	var visit func(n ast.Node, inLit bool)
	visit = func(n ast.Node, inLit bool) {
		ast.Inspect(n, func(n ast.Node) bool {
			if escapes {
				return false
			}
			switch n := n.(type) {
			case *ast.FuncLit:
				if !inLit {
					visit(n.Body, true)
					return false
				}
			case *ast.Ident:
				escapes = inLit && vars[r.info.Uses[n]]
			case *ast.UnaryExpr:
				escapes = n.Op == token.AND && rooted(n.X)
			case *ast.SliceExpr:
				if t := r.info.TypeOf(n.X); t != nil {
					_, isArray := t.Underlying().(*types.Array)
					escapes = isArray && rooted(n.X)
				}
			case *ast.SelectorExpr: // v.M() with pointer receiver on a value takes &v
				if s := r.info.Selections[n]; s != nil && s.Kind() == types.MethodVal && rooted(n.X) {
					_, recvPtr := s.Obj().Type().(*types.Signature).Recv().Type().(*types.Pointer)
					_, xPtr := s.Recv().Underlying().(*types.Pointer)
					escapes = recvPtr && !xPtr
				}
			}
			return !escapes
		})
	}
	visit(rs.Body, false)
	return escapes
}

// ---- B: mutexes ----

// mutexMethod classifies fn as a method of sync.Mutex / sync.RWMutex and
// returns the simrt function and site kind that replace a call to it.
func mutexMethod(fn *types.Func) (simrtFn, kind string) {
	if fn.Pkg() == nil || fn.Pkg().Path() != "sync" {
		return "", ""
	}
	recv := fn.Type().(*types.Signature).Recv()
	if recv == nil {
		return "", ""
	}
	t := recv.Type()
	if p, ok := t.(*types.Pointer); ok {
		t = p.Elem()
	}
	named, ok := t.(*types.Named)
	if !ok {
		return "", ""
	}
	switch named.Obj().Name() + "." + fn.Name() {
	case "Mutex.Lock":
		return "Lock", "lock"
	case "Mutex.Unlock":
		return "Unlock", "unlock"
	case "RWMutex.Lock":
		return "RWLock", "lock"
	case "RWMutex.Unlock":
		return "RWUnlock", "unlock"
	case "RWMutex.RLock":
		return "RLock", "rlock"
	case "RWMutex.RUnlock":
		return "RUnlock", "runlock"
	}
	return "", ""
}

// mutexCall turns x.mu.Lock() into simrt.Lock(site, &x.mu) by mutating the
// call node, which also covers `defer x.mu.Unlock()`.
func (r *rewriter) mutexCall(c *ast.CallExpr) {
	sel, ok := unparen(c.Fun).(*ast.SelectorExpr)
	if !ok {
		return
	}
	s := r.info.Selections[sel]
	if s == nil || s.Kind() != types.MethodVal {
		return
	}
	fn, kind := mutexMethod(s.Obj().(*types.Func))
	if fn == "" {
		return
	}
	// Spell out embedded fields: c.Lock() -> &c.Mutex.
	x, t := sel.X, s.Recv()
	path := s.Index()
	for _, i := range path[:len(path)-1] {
		f := structOf(t).Field(i)
		x = &ast.SelectorExpr{X: x, Sel: ident(f.Name())}
		t = f.Type()
	}
	if _, isPtr := t.Underlying().(*types.Pointer); !isPtr {
		x = &ast.UnaryExpr{Op: token.AND, X: x}
	}
	id := r.newSite(kind, c.Pos(), types.ExprString(sel), "", false)
	c.Fun = &ast.SelectorExpr{X: ident("simrt"), Sel: ident(fn)}
	c.Args = []ast.Expr{siteLit(id), x}
}

// structOf returns the struct underlying t or *t.
func structOf(t types.Type) *types.Struct {
	if p, ok := t.Underlying().(*types.Pointer); ok {
		t = p.Elem()
	}
	st, _ := t.Underlying().(*types.Struct)
	return st
}
