#!/usr/bin/env bash
# Self-test for simrewrite. Prints PASS/FAIL, exits 0/1.
#  1. /repo copy, rewritten without -access, with -access, and with -access for
#     every library struct: must build, simrt must vet, and `go test ./...` must
#     pass/fail exactly the same tests as an untouched copy.
#  2. Rewriting is deterministic, and refuses an already rewritten tree.
#  3. testdata/synth (constructs the repo does not contain) must pass its own
#     tests and a full `go vet` after rewriting; with -access its package-level
#     variables must get "<pkgvar>" probes (writes for scratch/buf/...).
#  4. Rule D: unmodelled synchronisation makes the tool exit 2.
set -u
export GOFLAGS=-mod=mod GOPROXY=off GOSUMDB=off GOTOOLCHAIN=local
HERE=$(cd "$(dirname "$0")" && pwd)
REPO=${REPO:-/repo}
STUB=$HERE/testdata/simrt_stub
WORK=$(mktemp -d /tmp/simrewrite-selftest.XXXXXX)
trap 'rm -rf "$WORK"' EXIT
fails=0
ok()  { echo "  ok   $*"; }
bad() { echo "  FAIL $*"; fails=$((fails + 1)); }

# results <dir>: one line "<package> <test> <pass|fail|skip>" per test and per
# package (test column "-"), sorted; the simrt package itself is left out.
results() {
	(cd "$1" && go test -count=1 -json ./... 2>&1) |
		sed -nE 's/^\{"Time":"[^"]*","Action":"(pass|fail|skip)","Package":"([^"]*)"(,"Test":"([^"]*)")?.*/\2 \4 \1/p' |
		awk '$1 !~ /\/simrt$/ { if (NF == 2) print $1, "-", $2; else print }' | sort
}

echo "== build"
(cd "$HERE" && go vet ./... && go build -o "$WORK/simrewrite" .) || { echo FAIL; exit 1; }
SR=$WORK/simrewrite

echo "== baseline: untouched copy of $REPO"
rsync -a --exclude .git "$REPO"/ "$WORK/base"/
results "$WORK/base" >"$WORK/base.txt"
echo "  tests: $(grep -vc ' - ' "$WORK/base.txt"), failing: $(grep -v ' - ' "$WORK/base.txt" | grep ' fail$' | tr '\n' ';')"
[ -s "$WORK/base.txt" ] || bad "baseline produced no test results"

for mode in plain access access-all; do
	flag=""; [ $mode = access ] && flag="-access"; [ $mode = access-all ] && flag="-access -access-types=*"
	echo "== repo, $mode"
	d=$WORK/repo-$mode
	rsync -a --exclude .git "$REPO"/ "$d"/
	if "$SR" -dir "$d" -simrt "$STUB" $flag -sites "$WORK/sites-$mode.json"; then ok "rewrite"; else bad "rewrite exit $?"; continue; fi
	(cd "$d" && go build ./... && go vet ./simrt/...) && ok "go build ./... && go vet ./simrt/..." || bad "build/vet"
	results "$d" >"$WORK/$mode.txt"
	if diff "$WORK/base.txt" "$WORK/$mode.txt" >"$WORK/diff.txt"; then ok "same pass/fail set as baseline ($(wc -l <"$WORK/$mode.txt") results)"; else bad "test outcomes differ:"; cat "$WORK/diff.txt"; fi
	"$SR" -dir "$d" -simrt "$STUB" $flag >/dev/null 2>&1; [ $? -eq 2 ] && ok "second run on the same tree refused" || bad "second run not refused"
done

echo "== determinism (-access, two fresh copies)"
d=$WORK/repo-again
rsync -a --exclude .git "$REPO"/ "$d"/
"$SR" -dir "$d" -simrt "$STUB" -access -sites "$WORK/sites-again.json" >/dev/null || bad "rewrite"
cmp -s "$WORK/sites-access.json" "$WORK/sites-again.json" && diff -r "$WORK/repo-access" "$d" >/dev/null && ok "identical output" || bad "outputs differ"

for mode in plain access; do
	flag=""; [ $mode = access ] && flag="-access -access-types Table,index,Box,inner,base"
	echo "== synthetic fixture, $mode"
	d=$WORK/synth-$mode
	rsync -a "$HERE/testdata/synth"/ "$d"/
	if "$SR" -dir "$d" -simrt "$STUB" $flag -sites "$WORK/synth-$mode.json"; then ok "rewrite"; else bad "rewrite exit $?"; continue; fi
	(cd "$d" && go vet ./... && go test -count=1 ./... >"$WORK/synth.out" 2>&1) && ok "go vet ./... && go test ./..." || { bad "fixture"; cat "$WORK/synth.out"; }
	grep -q '"uncontrolled_map_ranges": \[' "$WORK/synth-$mode.json" && [ "$(grep -c '"reason": "\(key type\|label is\)' "$WORK/synth-$mode.json")" = 2 ] && ok "struct-key and goto-label ranges reported uncontrolled" || bad "uncontrolled ranges"
	if [ $mode = access ]; then # package-level variables: probed whatever -access-types says
		flat=$(tr -d ' \n' <"$WORK/synth-$mode.json")
		for v in scratch buf limits defaults other.Counter; do
			case $flat in *"\"detail\":\"$v\",\"type\":\"<pkgvar>\",\"write\":true"*) ok "write probe for package-level var $v" ;; *) bad "no write probe for package-level var $v" ;; esac
		done
		case $flat in *'"detail":"registry","type":"<pkgvar>","write":false'*) ok "read probe for package-level var registry" ;; *) bad "no read probe for registry" ;; esac
		for v in errSentinel wordRE guardMu; do
			case $flat in *"\"detail\":\"$v\",\"type\":\"<pkgvar>\""*) bad "package-level var $v must not be probed" ;; *) ok "no probe for package-level var $v" ;; esac
		done
	fi
done

echo "== rule D: unmodelled synchronisation is refused"
guard_case() { # name, expected text, body
	d=$WORK/guard-$1
	mkdir -p "$d/core"
	printf 'module github.com/truora/minidyn\n\ngo 1.20\n' >"$d/go.mod"
	printf 'package core\n\n%s\n' "$3" >"$d/core/core.go"
	out=$("$SR" -dir "$d" -simrt "$STUB" 2>&1); rc=$?
	if [ $rc -eq 2 ] && echo "$out" | grep -q "schedule seam incomplete: .*$2.* at core/core.go:[0-9]" && [ ! -e "$d/simrt" ]; then ok "$1: $out"; else bad "$1: rc=$rc $out"; fi
}
guard_case chan 'channel' 'func f() { c := make(chan int, 1); c <- 1 }'
guard_case go 'go statement' 'func f() { go func() {}() }'
guard_case select 'select' 'func f() { select {} }'
guard_case waitgroup 'sync.WaitGroup' 'import "sync"
var wg sync.WaitGroup'
warn_case() { # name, expected text, body: non-blocking synchronisation is rewritten and listed, not refused
	d=$WORK/guard-$1
	mkdir -p "$d/core"
	printf 'module github.com/truora/minidyn\n\ngo 1.20\n' >"$d/go.mod"
	printf 'package core\n\n%s\n' "$3" >"$d/core/core.go"
	out=$("$SR" -dir "$d" -simrt "$STUB" -sites "$WORK/warn-$1.json" 2>&1); rc=$?
	if [ $rc -eq 0 ] && grep -q "$2 at core/core.go" "$WORK/warn-$1.json"; then ok "$1: listed as unmodelled non-blocking sync"; else bad "$1: rc=$rc $out"; fi
}
warn_case once 'sync.Once' 'import "sync"
func f() { var o sync.Once; o.Do(func() {}) }'
warn_case atomic 'sync/atomic.AddInt32' 'import "sync/atomic"
func f(p *int32) { atomic.AddInt32(p, 1) }'
warn_case syncmap 'sync.Map' 'import "sync"
var m sync.Map
func f() { m.Store(1, 2); m.Load(1) }'
guard_case methodvalue 'mutex method value' 'import "sync"
func f(mu *sync.Mutex) func() { return mu.Unlock }'
guard_case trylock 'TryLock' 'import "sync"
func f(mu *sync.Mutex) bool { return mu.TryLock() }'
guard_case ctxdone 'channel' 'import "context"
func f(ctx context.Context) { <-ctx.Done() }'

echo "== site counters"
for mode in plain access access-all; do
	echo "  $mode: $(tr -d ' \n' <"$WORK/sites-$mode.json" | sed -nE 's/.*"counts":(\{[^}]*\}).*"skipped_access":([0-9]+).*"filtered_access":([0-9]+).*/\1 skipped_access=\2 filtered_access=\3/p') uncontrolled=$(tr -d ' \n' <"$WORK/sites-$mode.json" | sed -nE 's/.*"uncontrolled_map_ranges":\[([^]]*)\].*/[\1]/p')"
done

if [ $fails -eq 0 ]; then echo PASS; exit 0; fi
echo "FAIL ($fails)"
exit 1
