package sim

import (
	"fmt"
	"sort"
	"strings"
)

// TableUni is the small numbered universe of one table name: everything the
// observer reads after every step.
type TableUni struct {
	Name      string          `json:"name"`
	HashVals  []AV            `json:"hash_vals"`
	RangeVals []AV            `json:"range_vals,omitempty"`
	IdxVals   map[string][]AV `json:"idx_vals,omitempty"` // attribute name -> values used for it
}

// World is what a run starts from.
type World struct {
	SDKs   []string   `json:"sdks"` // per client: v1 | v2
	Tables []TableUni `json:"tables"`
}

func (w *World) uni(name string) *TableUni {
	for i := range w.Tables {
		if w.Tables[i].Name == name {
			return &w.Tables[i]
		}
	}
	return nil
}

// KeysOf enumerates the key universe of a table under its current definition.
func (u *TableUni) KeysOf(def TableDef) []Item {
	var out []Item
	for _, h := range u.HashVals {
		if h.T != def.Hash.Type {
			continue
		}
		if def.Range == nil {
			out = append(out, Item{def.Hash.Name: h})
			continue
		}
		for _, r := range u.RangeVals {
			if r.T != def.Range.Type {
				continue
			}
			out = append(out, Item{def.Hash.Name: h, def.Range.Name: r})
		}
	}
	return out
}

// Seq is an ordered read result.
type Seq struct {
	Class string
	Items []Item
	LEK   bool
}

func (s Seq) canonSorted() []string {
	out := make([]string, len(s.Items))
	for i, it := range s.Items {
		out[i] = it.Canon()
	}
	sort.Strings(out)
	return out
}

// ObsIndex is what is visible through one index.
type ObsIndex struct {
	Scan  Seq
	Parts map[string]Seq // partition canon + "/f" or "/b"
}

// ObsTable is what is visible of one table name.
type ObsTable struct {
	DescClass string
	Desc      *TableDesc
	Gets      map[string]string // key canon -> item canon | "<none>" | "!class"
	Scan      Seq
	Parts     map[string]Seq
	Idx       map[string]*ObsIndex
}

// ObsClient is the observable state of one client; nil while a failure
// condition is active (reads fail by design then).
type ObsClient map[string]*ObsTable

// Observer reads the full observable state through the public API only.
type Observer struct {
	W     *World
	Calls int
	// R orders the reads of one observation (its own stream, derived from the
	// run seed: the generator's draws are not disturbed). A fixed order would
	// reset whatever the library remembers from its last read in the same way
	// after every step.
	R *Rng
}

// Observe reads every table name of the universe on one client. Which
// indexes, keys and partitions exist is taken from the model (the model says
// what should be visible; a table the model does not know is probed with
// DescribeTable only).
func (ob *Observer) Observe(d Driver, mc *MClient) ObsClient {
	st := ObsClient{}
	for i := range ob.W.Tables {
		u := &ob.W.Tables[i]
		st[u.Name] = ob.observeTable(d, mc, u)
	}
	return st
}

func (ob *Observer) exec(d Driver, c *Cmd) Outcome {
	ob.Calls++
	c.ID = -1
	return d.Exec(c)
}

func seqOf(o Outcome) Seq {
	return Seq{Class: o.Class, Items: o.Items, LEK: o.LEK != nil}
}

func (ob *Observer) observeTable(d Driver, mc *MClient, u *TableUni) *ObsTable {
	t := &ObsTable{Gets: map[string]string{}, Parts: map[string]Seq{}, Idx: map[string]*ObsIndex{}}
	o := ob.exec(d, &Cmd{Op: "Describe", T: u.Name})
	t.DescClass, t.Desc = o.Class, o.Desc
	mt := mc.Tables[u.Name]
	if mt == nil {
		// model: table absent. Anything beyond "not found" is visible in DescClass.
		return t
	}
	def := mt.Def
	var jobs []func()
	for _, k := range u.KeysOf(def) {
		k := k
		jobs = append(jobs, func() {
			g := ob.exec(d, &Cmd{Op: "Get", T: u.Name, Key: k})
			if g.Class != "ok" {
				t.Gets[k.Canon()] = "!" + g.Class
			} else {
				t.Gets[k.Canon()] = g.Item.Canon()
			}
		})
	}
	jobs = append(jobs, func() { t.Scan = seqOf(ob.exec(d, &Cmd{Op: "Scan", T: u.Name})) })
	if def.Range != nil {
		for _, h := range u.HashVals {
			if h.T != def.Hash.Type {
				continue
			}
			h := h
			jobs = append(jobs, func() {
				t.Parts[h.Canon()+"/f"] = seqOf(ob.exec(d, &Cmd{Op: "Query", T: u.Name, HashAttr: def.Hash.Name, Part: &h}))
			})
			jobs = append(jobs, func() {
				t.Parts[h.Canon()+"/b"] = seqOf(ob.exec(d, &Cmd{Op: "Query", T: u.Name, HashAttr: def.Hash.Name, Part: &h, Back: true}))
			})
		}
	}
	for _, ix := range def.Indexes {
		ix := ix
		oi := &ObsIndex{Parts: map[string]Seq{}}
		jobs = append(jobs, func() { oi.Scan = seqOf(ob.exec(d, &Cmd{Op: "Scan", T: u.Name, Index: ix.Name})) })
		vals := idxPartVals(u, def, ix)
		for _, h := range vals {
			if h.T != ix.Hash.Type {
				continue
			}
			h := h
			jobs = append(jobs, func() {
				oi.Parts[h.Canon()+"/f"] = seqOf(ob.exec(d, &Cmd{Op: "Query", T: u.Name, Index: ix.Name, HashAttr: ix.Hash.Name, Part: &h}))
			})
			jobs = append(jobs, func() {
				oi.Parts[h.Canon()+"/b"] = seqOf(ob.exec(d, &Cmd{Op: "Query", T: u.Name, Index: ix.Name, HashAttr: ix.Hash.Name, Part: &h, Back: true}))
			})
		}
		t.Idx[ix.Name] = oi
	}
	order := make([]int, len(jobs))
	for i := range order {
		order[i] = i
	}
	if ob.R != nil {
		order = ob.R.Perm(len(jobs))
	}
	for _, i := range order {
		jobs[i]()
	}
	return t
}

// Diff is one difference between two views of the observable state.
type Diff struct {
	Table string
	Comp  string // exists desc count get scan part idx-scan idx-part idx-count order idx-order
	Index string
	Msg   string
}

func (d Diff) String() string {
	s := d.Table
	if d.Index != "" {
		s += "/" + d.Index
	}
	return s + " " + d.Comp + ": " + d.Msg
}

// WitnessMode: a witness (or any replay file) is being re-executed: every rule
// is evaluated, listed findings included.
var WitnessMode bool

// OrderSkipped counts order checks not made because of the listed finding.
var OrderSkipped int

// orderOK: seq is monotone in the typed sort key (ties free).
func orderOK(items []Item, rng *KeyDef, back bool) bool {
	if rng == nil {
		return true
	}
	if (rng.Type == "N" || rng.Type == "B") && KnownTriggers["number-sort-key-order"] && !WitnessMode && (rng.Type == "B" || textOrderDiffers(items, rng.Name)) {
		// listed finding (number/binary sort keys are ordered by their text): a
		// violation of the order clause over binary keys, or over numbers whose
		// order by value and by text differ somewhere in this result, satisfies its
		// trigger, so it is not raised - the run goes on and the result SET is
		// still checked. Numbers that read the same either way are checked.
		OrderSkipped++
		return true
	}
	for i := 1; i < len(items); i++ {
		c, ok := CmpScalar(items[i-1][rng.Name], items[i][rng.Name])
		if !ok {
			return false
		}
		if (!back && c > 0) || (back && c < 0) {
			return false
		}
	}
	return true
}

// sortKeyDesc names the sort key type in order failures; for numbers it says
// whether the listed finding (order by text) can be what is seen.
func sortKeyDesc(items []Item, rng *KeyDef) string {
	if rng.Type != "N" {
		return rng.Type
	}
	if textOrderDiffers(items, rng.Name) {
		return "N, ordered differently by value and by text"
	}
	return "N, ordered alike by value and by text"
}

// textOrderDiffers: some pair of the numbers under attr compares differently
// by value and as text (the numerals as the requests spelled them).
func textOrderDiffers(items []Item, attr string) bool {
	for i := range items {
		for j := i + 1; j < len(items); j++ {
			a, b := items[i][attr], items[j][attr]
			c, ok := CmpScalar(a, b)
			if !ok || a.T != "N" || b.T != "N" {
				return true
			}
			t := strings.Compare(a.S, b.S)
			if (c < 0) != (t < 0) || (c > 0) != (t > 0) {
				return true
			}
		}
	}
	return false
}

func sameStrings(a, b []string) bool {
	if len(a) != len(b) {
		return false
	}
	for i := range a {
		if a[i] != b[i] {
			return false
		}
	}
	return true
}

func canonSorted(items []Item) []string {
	out := make([]string, len(items))
	for i, it := range items {
		out[i] = it.Canon()
	}
	sort.Strings(out)
	return out
}

func brief(ss []string) string {
	if len(ss) > 6 {
		return fmt.Sprintf("%s ... (%d items)", strings.Join(ss[:6], " "), len(ss))
	}
	return "[" + strings.Join(ss, " ") + "]"
}

// CompareModel checks one client's observed state against the model.
func CompareModel(w *World, mc *MClient, obs ObsClient) []Diff {
	var out []Diff
	for i := range w.Tables {
		u := &w.Tables[i]
		ot := obs[u.Name]
		mt := mc.Tables[u.Name]
		if mt == nil {
			if ot.DescClass != "not-found" {
				out = append(out, Diff{u.Name, "exists", "", "model: no such table; DescribeTable answered " + ot.DescClass})
			}
			continue
		}
		if ot.DescClass != "ok" || ot.Desc == nil {
			out = append(out, Diff{u.Name, "exists", "", "model: table exists; DescribeTable answered " + ot.DescClass})
			continue
		}
		want := mt.describe()
		if ot.Desc.Keys != want.Keys {
			out = append(out, Diff{u.Name, "desc", "", fmt.Sprintf("key schema %q, declared %q", ot.Desc.Keys, want.Keys)})
		}
		if fmt.Sprint(ot.Desc.Indexes) != fmt.Sprint(want.Indexes) {
			out = append(out, Diff{u.Name, "desc", "", fmt.Sprintf("indexes %v, model %v", ot.Desc.Indexes, want.Indexes)})
		}
		if ot.Desc.ItemCount != want.ItemCount {
			out = append(out, Diff{u.Name, "count", "", fmt.Sprintf("ItemCount %d, model %d", ot.Desc.ItemCount, want.ItemCount)})
		}
		for _, k := range u.KeysOf(mt.Def) {
			wantIt := mt.Items[KeyID(mt.Def, k)].Canon()
			if got := ot.Gets[k.Canon()]; got != wantIt {
				out = append(out, Diff{u.Name, "get", "", fmt.Sprintf("GetItem %s = %s, model %s", k.Canon(), got, wantIt)})
			}
		}
		all := mt.Select("", nil, nil, nil, false)
		if ot.Scan.Class != "ok" {
			out = append(out, Diff{u.Name, "scan", "", "Scan answered " + ot.Scan.Class})
		} else if got, wantS := ot.Scan.canonSorted(), canonSorted(all); !sameStrings(got, wantS) {
			out = append(out, Diff{u.Name, "scan", "", fmt.Sprintf("Scan %s, model %s", brief(got), brief(wantS))})
		}
		for _, pk := range sortedKeys(ot.Parts) {
			seq := ot.Parts[pk]
			back := strings.HasSuffix(pk, "/b")
			part := partOf(u.HashVals, pk)
			wantItems := mt.Select("", part, nil, nil, back)
			out = append(out, compareSeq(u.Name, "", "part", "order", pk, seq, wantItems, mt.Def.Range, back)...)
		}
		for _, ix := range mt.Def.Indexes {
			oi := ot.Idx[ix.Name]
			if oi == nil {
				continue
			}
			wantAll := mt.Select(ix.Name, nil, nil, nil, false)
			if oi.Scan.Class != "ok" {
				out = append(out, Diff{u.Name, "idx-scan", ix.Name, "Scan answered " + oi.Scan.Class})
			} else if got, wantS := oi.Scan.canonSorted(), canonSorted(wantAll); !sameStrings(got, wantS) {
				out = append(out, Diff{u.Name, "idx-scan", ix.Name, fmt.Sprintf("Scan %s, model %s", brief(got), brief(wantS))})
			}
			if c, ok := ot.Desc.IdxCount[ix.Name]; ok && c >= 0 && c != int64(len(wantAll)) {
				out = append(out, Diff{u.Name, "idx-count", ix.Name, fmt.Sprintf("index ItemCount %d, model %d", c, len(wantAll))})
			}
			vals := idxPartVals(u, mt.Def, ix)
			for _, pk := range sortedKeys(oi.Parts) {
				seq := oi.Parts[pk]
				back := strings.HasSuffix(pk, "/b")
				part := partOf(vals, pk)
				wantItems := mt.Select(ix.Name, part, nil, nil, back)
				out = append(out, compareSeq(u.Name, ix.Name, "idx-part", "idx-order", pk, seq, wantItems, ix.Range, back)...)
			}
		}
	}
	return out
}

func partOf(vals []AV, pk string) *AV {
	c := pk[:len(pk)-2]
	for i := range vals {
		if vals[i].Canon() == c {
			return &vals[i]
		}
	}
	return nil
}

func compareSeq(table, index, comp, ordComp, pk string, seq Seq, want []Item, rng *KeyDef, back bool) []Diff {
	if seq.Class != "ok" {
		return []Diff{{table, comp, index, "Query " + pk + " answered " + seq.Class}}
	}
	var out []Diff
	if got, wantS := seq.canonSorted(), canonSorted(want); !sameStrings(got, wantS) {
		out = append(out, Diff{table, comp, index, fmt.Sprintf("Query %s %s, model %s", pk, brief(got), brief(wantS))})
	} else if !orderOK(seq.Items, rng, back) {
		ss := make([]string, len(seq.Items))
		for i, it := range seq.Items {
			ss[i] = it.Canon()
		}
		out = append(out, Diff{table, ordComp, index, fmt.Sprintf("Query %s not in sort-key order (backward=%v, sort key type %s): %s", pk, back, sortKeyDesc(seq.Items, rng), brief(ss))})
	}
	if seq.LEK {
		out = append(out, Diff{table, comp, index, "Query " + pk + " without Limit returned a LastEvaluatedKey"})
	}
	return out
}

// Signature is a canonical text of an observed client state, insensitive to
// what no property fixes (order of scans, order of ties).
func (o ObsClient) Signature() string {
	if o == nil {
		return "<unobservable>"
	}
	var sb strings.Builder
	for _, tn := range sortedKeys(o) {
		t := o[tn]
		fmt.Fprintf(&sb, "%s desc=%s", tn, t.DescClass)
		if t.Desc != nil {
			fmt.Fprintf(&sb, " n=%d keys=%s idx=%v cnt=%v", t.Desc.ItemCount, t.Desc.Keys, t.Desc.Indexes, t.Desc.IdxCount)
		}
		for _, k := range sortedKeys(t.Gets) {
			fmt.Fprintf(&sb, "\n get %s=%s", k, t.Gets[k])
		}
		fmt.Fprintf(&sb, "\n scan %s %v", t.Scan.Class, t.Scan.canonSorted())
		for _, k := range sortedKeys(t.Parts) {
			fmt.Fprintf(&sb, "\n part %s %s %v", k, t.Parts[k].Class, t.Parts[k].canonSorted())
		}
		for _, in := range sortedKeys(t.Idx) {
			oi := t.Idx[in]
			fmt.Fprintf(&sb, "\n idx %s scan %s %v", in, oi.Scan.Class, oi.Scan.canonSorted())
			for _, k := range sortedKeys(oi.Parts) {
				fmt.Fprintf(&sb, "\n idx %s part %s %s %v", in, k, oi.Parts[k].Class, oi.Parts[k].canonSorted())
			}
		}
		sb.WriteByte('\n')
	}
	return sb.String()
}

// DiffSignatures reports the first differing line of two signatures.
func DiffSignatures(a, b string) string {
	la, lb := strings.Split(a, "\n"), strings.Split(b, "\n")
	for i := 0; i < len(la) || i < len(lb); i++ {
		var x, y string
		if i < len(la) {
			x = la[i]
		}
		if i < len(lb) {
			y = lb[i]
		}
		if x != y {
			return fmt.Sprintf("before: %q after: %q", strings.TrimSpace(x), strings.TrimSpace(y))
		}
	}
	return ""
}

// idxPartVals: the partition values to query an index by.
func idxPartVals(u *TableUni, def TableDef, ix IndexDef) []AV {
	switch {
	case ix.Hash.Name == def.Hash.Name:
		return u.HashVals
	case def.Range != nil && ix.Hash.Name == def.Range.Name:
		return u.RangeVals
	}
	return u.IdxVals[ix.Hash.Name]
}
