package sim

import (
	"crypto/sha256"
	"encoding/hex"
	"fmt"
	"sort"
	"strings"
	"time"

	"github.com/anishathalye/porcupine"
	"github.com/truora/minidyn/simrt"
)

// Concurrent runs (C11): 2-4 real goroutines, each executing its command
// list against one shared client of the instrumented library. simrt parks
// and releases them one at a time; who runs next is a draw from the run's
// PRNG. The recorded invoke/return history is checked for linearizability
// against the reference model with porcupine; simrt reports deadlocks,
// leaked locks, overruns and (vector clocks over the access probes) races.

// SchedCfg is the replayable part of the scheduler configuration.
type SchedCfg struct {
	Mode    int      `json:"mode"`
	Seed    uint64   `json:"seed"`
	Period  uint64   `json:"period,omitempty"`
	Preempt []uint64 `json:"preempt,omitempty"`
}

// HistOp is one operation of the recorded history.
type HistOp struct {
	Task int     `json:"task"`
	Cmd  *Cmd    `json:"cmd"`
	Call int64   `json:"call"`
	Ret  int64   `json:"ret"`
	Out  Outcome `json:"out"`
}

// ConcResult is the verdict of one concurrent run.
type ConcResult struct {
	RunResult
	History   []HistOp
	Sched     simrt.Result
	Porcupine string // ok | illegal | unknown | skipped
	Scenario  string
}

type pstate struct {
	m     *Model
	canon string
}

func newPState(m *Model) *pstate { return &pstate{m: m, canon: m.Canon()} }

// splitOps turns a batch into per-request operations sharing its interval
// (what DynamoDB and C19 define; DESIGN.md section 4, C11).
func splitBatch(op HistOp) ([]HistOp, bool) {
	if op.Cmd.Op != "BatchWrite" {
		return []HistOp{op}, true
	}
	if !op.Out.OK() {
		// rejected as a whole before anything ran (validation, missing table)
		// is a plain operation; the deprecated forced failure is a documented
		// error return after a partial application and cannot be attributed
		if op.Out.Class == "validation" || op.Out.Class == "not-found" {
			return []HistOp{op}, true
		}
		return nil, false
	}
	unproc := map[string]bool{}
	for _, s := range batchCanon(op.Out.Unproc) {
		unproc[s] = true
	}
	var out []HistOp
	for i, r := range op.Cmd.Batch {
		if unproc[batchCanon([]BatchReq{r})[0]] {
			continue
		}
		c := &Cmd{ID: op.Cmd.ID*100 + i, C: op.Cmd.C, T: r.T, Actor: "batch-part"}
		o := Outcome{Class: "ok"}
		if r.Put != nil {
			c.Op, c.Item = "Put", r.Put
		} else {
			c.Op, c.Key = "BatchDelete", r.Del
		}
		out = append(out, HistOp{Task: op.Task, Cmd: c, Call: op.Call, Ret: op.Ret, Out: o})
	}
	return out, true
}

func porcupineModel(init *Model) porcupine.Model {
	return porcupine.Model{
		Init: func() interface{} { return newPState(init) },
		Step: func(state, input, output interface{}) (bool, interface{}) {
			st := state.(*pstate)
			in := input.(*Cmd)
			out := output.(Outcome)
			m := st.m.Clone()
			var mt *MTable
			if in.T != "" {
				mt = st.m.Clients[in.C].Tables[in.T]
			}
			cmd := in
			if in.Op == "BatchDelete" {
				// a delete inside a batch returns nothing
				cmd = in.clone()
				cmd.Op = "Delete"
				ex := m.Apply(cmd)
				return ex.Out.Class == "ok", newPState(m)
			}
			ex := m.Apply(cmd)
			if ex.Unspecified {
				return true, newPState(m)
			}
			fails, quiet := CheckOutcome(cmd, ex, out, mt)
			if quiet != "" {
				return true, newPState(m)
			}
			return len(fails) == 0, newPState(m)
		},
		Equal: func(a, b interface{}) bool { return a.(*pstate).canon == b.(*pstate).canon },
		DescribeOperation: func(input, output interface{}) string {
			return input.(*Cmd).String() + " => " + outcomeLine(output.(Outcome))
		},
	}
}

// concScenarios biases the tasks towards collisions on one table and key.
var concScenarios = []string{"add-race", "put-race", "del-race", "index-read", "panic", "create-native", "batch-toggle", "create-race", "describe-write", "lifecycle", "toggle", "batch", "mix", "mix", "big-backfill"}

type concGen struct {
	*Gen
	scenario string
	hotKey   Item
	uniq     int
	loaded   []Item // big-backfill: keys of the items loaded before the tasks start
}

func (g *concGen) uniqS(task, i int) AV {
	g.uniq++
	return S(fmt.Sprintf("t%dc%d-%d", task, i, g.uniq))
}

// concCmd draws one command of a task.
func (g *concGen) concCmd(m *Model, task, i int) *Cmd {
	r := g.R
	mc := m.Clients[0]
	t0 := g.W.Tables[0].Name
	def0 := g.defs[t0][0]
	key := func() Item {
		if r.Chance(0.7) {
			return g.hotKey.Clone()
		}
		return pick(r, g.W.Tables[0].KeysOf(def0)).Clone()
	}
	put := func(k Item) *Cmd {
		it := k.Clone()
		it["a"] = g.uniqS(task, i)
		for _, kd := range indexAttrs(def0) {
			if r.Chance(0.6) {
				it[kd.Name] = g.idxAttrVal(t0, kd.Name, kd.Type)
			}
		}
		return &Cmd{Op: "Put", T: t0, Item: it}
	}
	addOne := func() *Cmd {
		return &Cmd{Op: "Update", T: t0, Key: g.hotKey.Clone(), Upd: Update{{Kind: "ADD", Path: P("n"), Val: N("1")}}}
	}
	condPut := func() *Cmd {
		c := put(g.hotKey)
		c.Cond = &Expr{Op: "not_exists", Path: &Path{Attr: def0.Hash.Name}}
		return c
	}
	generic := func() *Cmd {
		switch r.Intn(12) {
		case 0, 1:
			return put(key())
		case 2:
			return &Cmd{Op: "Get", T: t0, Key: key()}
		case 3:
			return &Cmd{Op: "Delete", T: t0, Key: key()}
		case 4:
			return addOne()
		case 5:
			return &Cmd{Op: "Update", T: t0, Key: key(), Upd: Update{{Kind: "SET", Path: P("b"), Form: "val", Val: g.uniqS(task, i)}}}
		case 6:
			return condPut()
		case 7:
			return &Cmd{Op: "Scan", T: t0}
		case 8:
			return &Cmd{Op: "Describe", T: t0}
		case 9:
			h := g.hotKey[def0.Hash.Name]
			return &Cmd{Op: "Query", T: t0, HashAttr: def0.Hash.Name, Part: &h, Back: r.Chance(0.3)}
		case 10:
			if len(def0.Indexes) > 0 {
				ix := pick(r, def0.Indexes)
				return &Cmd{Op: "Scan", T: t0, Index: ix.Name}
			}
			return &Cmd{Op: "Scan", T: t0}
		default:
			c := &Cmd{Op: "Update", T: t0, Key: key(), Upd: Update{{Kind: "SET", Path: P("c"), Form: "ine", Src: &Path{Attr: "c"}, Val2: N("0"), Val: N("1")}}}
			return c
		}
	}
	_ = mc
	switch g.scenario {
	case "add-race":
		if i == 0 || r.Chance(0.6) {
			return addOne()
		}
	case "put-race":
		if i == 0 || r.Chance(0.5) {
			return condPut()
		}
	case "panic":
		// a call that aborts inside the critical section (malformed filter over a
		// non-empty table): the client must stay usable for every other task
		if i == 0 || r.Chance(0.3) {
			return &Cmd{Op: "Bad", Bad: "syntax-filter", Base: "Scan", T: t0, RawExpr: pick(r, []string{"a = ", "( a = :x", "a = :x AND", "a $ :x"}), RawVals: Item{":x": S("a")}}
		}
	case "create-native":
		if len(g.W.Tables) > 1 {
			t1 := g.W.Tables[1].Name
			def1 := g.defs[t1][0]
			switch r.Intn(5) {
			case 0, 1:
				d := def1
				return &Cmd{Op: "Create", T: t1, Def: &d}
			case 2:
				return &Cmd{Op: "Native", Native: "activate"}
			case 3:
				k := pick(r, g.W.Tables[1].KeysOf(def1)).Clone()
				return &Cmd{Op: "Update", T: t1, Key: k, Upd: Update{{Kind: "SET", Path: P("b"), Form: "val", Val: g.uniqS(task, i)}}}
			}
		}
	case "batch-toggle":
		if r.Chance(0.4) {
			return &Cmd{Op: "Toggle", Fail: pick(r, []string{"internal_server", "internal_server", "none"}), Entry: "emulate"}
		}
		if r.Chance(0.7) {
			c := &Cmd{Op: "BatchWrite"}
			keys := g.W.Tables[0].KeysOf(def0)
			perm := r.Intn(len(keys))
			for j := 0; j < min(4, len(keys)); j++ {
				it := keys[(perm+j)%len(keys)].Clone()
				it["a"] = g.uniqS(task, i)
				c.Batch = append(c.Batch, BatchReq{T: t0, Put: it})
			}
			return c
		}
	case "del-race":
		// racing guarded deletes of one item: exactly one may win
		if i == 0 || r.Chance(0.5) {
			return &Cmd{Op: "Delete", T: t0, Key: g.hotKey.Clone(), Cond: &Expr{Op: "exists", Path: &Path{Attr: def0.Hash.Name}}}
		}
	case "index-read":
		// concurrent readers of one secondary index
		if len(def0.Indexes) > 0 && (i == 0 || r.Chance(0.6)) {
			ix := pick(r, def0.Indexes)
			if r.Chance(0.5) {
				return &Cmd{Op: "Scan", T: t0, Index: ix.Name}
			}
			vals := idxPartVals(&g.W.Tables[0], def0, ix)
			if len(vals) > 0 {
				v := pick(r, vals)
				return &Cmd{Op: "Query", T: t0, Index: ix.Name, HashAttr: ix.Hash.Name, Part: &v, Back: r.Chance(0.4)}
			}
		}
	case "create-race":
		if len(g.W.Tables) > 1 {
			t1 := g.W.Tables[1].Name
			def1 := g.defs[t1][0]
			switch r.Intn(6) {
			case 0, 1:
				d := def1
				return &Cmd{Op: "Create", T: t1, Def: &d}
			case 2:
				k := pick(r, g.W.Tables[1].KeysOf(def1)).Clone()
				k["a"] = g.uniqS(task, i)
				return &Cmd{Op: "Put", T: t1, Item: k}
			case 3:
				return &Cmd{Op: "Describe", T: t1}
			case 4:
				return &Cmd{Op: "Drop", T: t1}
			}
		}
	case "describe-write":
		if r.Chance(0.4) {
			return &Cmd{Op: "Describe", T: t0}
		}
		if r.Chance(0.5) {
			return put(key())
		}
	case "lifecycle":
		switch r.Intn(8) {
		case 0:
			return &Cmd{Op: "Clear", T: t0}
		case 1:
			ix := IndexDef{Name: "gsi1", Kind: "gsi", Hash: KeyDef{"g1", "S"}}
			return &Cmd{Op: "IndexCreate", T: t0, IdxDef: &ix}
		case 2:
			return &Cmd{Op: "IndexDrop", T: t0, Index: "gsi1"}
		case 3:
			return &Cmd{Op: "Native", Native: pick(r, []string{"activate", "activate", "reset", "debug", "metrics"})}
		case 4:
			// table management on ANOTHER table while this one's indexes change
			if len(g.W.Tables) > 1 {
				t1 := g.W.Tables[1].Name
				d := g.defs[t1][0]
				if r.Chance(0.6) {
					return &Cmd{Op: "Create", T: t1, Def: &d}
				}
				return &Cmd{Op: "Drop", T: t1}
			}
		}
	case "big-backfill":
		// an index created over a table of more than 32 items while writers run
		if task == 0 && i == 0 {
			ix := IndexDef{Name: "gsi1", Kind: "gsi", Hash: KeyDef{"g1", "S"}}
			return &Cmd{Op: "IndexCreate", T: t0, IdxDef: &ix}
		}
		switch r.Intn(5) {
		case 0, 1:
			return &Cmd{Op: "Delete", T: t0, Key: pick(r, g.loaded[:12]).Clone()}
		case 2:
			k := pick(r, g.loaded[:12]).Clone()
			k[def0.Hash.Name] = S(fmt.Sprintf("a%02d", r.Intn(20))) // sorts before every loaded key
			c := put(k)
			c.Item["g1"] = g.idxAttrVal(t0, "g1", "S")
			return c
		case 3:
			return &Cmd{Op: "Scan", T: t0}
		}
	case "toggle":
		if r.Chance(0.35) {
			if r.Chance(0.5) {
				return &Cmd{Op: "Toggle", Fail: "none", Entry: pick(r, []string{"emulate", "deactive"})}
			}
			return &Cmd{Op: "Toggle", Fail: pick(r, []string{"internal_server", "deprecated"}), Entry: "emulate"}
		}
		if r.Chance(0.15) {
			return &Cmd{Op: "Transact"}
		}
	case "batch":
		if r.Chance(0.12) {
			return &Cmd{Op: "Native", Native: "metrics"}
		}
		if r.Chance(0.5) {
			c := &Cmd{Op: "BatchWrite"}
			keys := g.W.Tables[0].KeysOf(def0)
			n := r.Range(1, min(3, len(keys)))
			perm := r.Intn(len(keys))
			for j := 0; j < n; j++ {
				k := keys[(perm+j)%len(keys)].Clone()
				if r.Chance(0.7) {
					it := k.Clone()
					it["a"] = g.uniqS(task, i)
					c.Batch = append(c.Batch, BatchReq{T: t0, Put: it})
				} else {
					c.Batch = append(c.Batch, BatchReq{T: t0, Del: k})
				}
			}
			return c
		}
	}
	return generic()
}

// ConcPlanFor generates the world, set-up and task lists of one concurrent run.
func ConcPlanFor(seed uint64) (*Plan, string) {
	prof := &Profile{Prop: "C11", MinClients: 1, MaxClients: 1, MaxTables: 2, MinIdx: 0, MaxIdx: 2, RangeProb: 0.6, KeyStyle: "plain", MinSteps: 1, MaxSteps: 1, Weights: map[string]float64{"put": 1, "get": 1}}
	g := &concGen{Gen: NewGen(seed, prof)}
	r := g.R
	g.scenario = pick(r, concScenarios)
	// a quarter of the runs: two independent clients used concurrently (they
	// may share nothing: package-level state of the library is the only link)
	twoClients := r.Chance(0.25)
	if twoClients {
		g.W.SDKs = append(g.W.SDKs, pick(r, []string{"v1", "v2"}))
	}
	// small key universe so that tasks collide
	for i := range g.W.Tables {
		u := &g.W.Tables[i]
		if len(u.HashVals) > 2 {
			u.HashVals = u.HashVals[:2]
		}
		if len(u.RangeVals) > 2 {
			u.RangeVals = u.RangeVals[:2]
		}
	}
	if (g.scenario == "create-race" || g.scenario == "create-native") && len(g.W.Tables) < 2 {
		g.scenario = "mix"
	}
	t0 := g.W.Tables[0].Name
	def0 := g.defs[t0][0]
	if g.scenario == "big-backfill" && def0.Hash.Type != "S" {
		g.scenario = "lifecycle"
	}
	if g.scenario == "lifecycle" || g.scenario == "big-backfill" {
		// gsi1 is created and dropped by the tasks
		var keep []IndexDef
		for _, ix := range def0.Indexes {
			if ix.Name != "gsi1" {
				keep = append(keep, ix)
			}
		}
		def0.Indexes = keep
		g.defs[t0][0] = def0
	}
	g.hotKey = pick(r, g.W.Tables[0].KeysOf(def0)).Clone()
	p := &Plan{Property: "C11", Seed: seed, World: g.W, MapOrder: g.Cfg.MapOrder, MapSeed: Mix(seed, 77)}
	d0 := def0
	p.Cmds = append(p.Cmds, &Cmd{ID: g.id(), Op: "Create", T: t0, Def: &d0, Actor: "setup"})
	if len(g.W.Tables) > 1 && g.scenario != "create-race" && g.scenario != "create-native" && r.Chance(0.5) {
		t1 := g.W.Tables[1].Name
		d1 := g.defs[t1][0]
		p.Cmds = append(p.Cmds, &Cmd{ID: g.id(), Op: "Create", T: t1, Def: &d1, Actor: "setup"})
	}
	if twoClients {
		var twin []*Cmd
		for _, c := range p.Cmds {
			d := c.clone()
			d.ID, d.C = g.id(), 1
			twin = append(twin, d)
		}
		p.Cmds = append(p.Cmds, twin...)
	}
	// initial items
	m := NewModel(len(g.W.SDKs))
	for _, c := range p.Cmds {
		m.Apply(c)
	}
	nInit := r.Intn(3)
	if g.scenario == "del-race" || g.scenario == "index-read" || g.scenario == "panic" {
		nInit = r.Range(2, 3)
	}
	for i, n := 0, nInit; i < n; i++ {
		k := pick(r, g.W.Tables[0].KeysOf(def0)).Clone()
		if i == 0 && g.scenario == "del-race" {
			k = g.hotKey.Clone()
		}
		it := k.Clone()
		it["a"] = g.uniqS(9, i)
		if r.Chance(0.5) {
			it["n"] = N("0")
		}
		for _, kd := range indexAttrs(def0) {
			if g.scenario == "index-read" || r.Chance(0.5) {
				it[kd.Name] = g.idxAttrVal(t0, kd.Name, kd.Type)
			}
		}
		c := &Cmd{ID: g.id(), Op: "Put", T: t0, Item: it, Actor: "setup"}
		m.Apply(c)
		p.Cmds = append(p.Cmds, c)
		if twoClients {
			d := c.clone()
			d.ID, d.C = g.id(), 1
			m.Apply(d)
			p.Cmds = append(p.Cmds, d)
		}
	}
	if g.scenario == "big-backfill" {
		n := r.Range(33, 40)
		for start := 0; start < n; start += 25 {
			b := &Cmd{ID: g.id(), Op: "BatchWrite", Actor: "setup"}
			for j := start; j < n && j < start+25; j++ {
				k := Item{def0.Hash.Name: S(fmt.Sprintf("b%02d", j))}
				if def0.Range != nil {
					k[def0.Range.Name] = g.W.Tables[0].RangeVals[0]
				}
				if start == 0 {
					g.loaded = append(g.loaded, k.Clone())
				}
				it := k.Clone()
				it["g1"] = g.idxAttrVal(t0, "g1", "S")
				b.Batch = append(b.Batch, BatchReq{T: t0, Put: it})
			}
			m.Apply(b)
			p.Cmds = append(p.Cmds, b)
			if twoClients {
				d := b.clone()
				d.ID, d.C = g.id(), 1
				m.Apply(d)
				p.Cmds = append(p.Cmds, d)
			}
		}
	}
	nT, maxOps, maxPer := r.Range(2, 4), 12, 4
	if Tier == "thorough" {
		nT, maxOps, maxPer = r.Range(2, 5), 16, 5
	}
	total := 0
	for t := 0; t < nT; t++ {
		n := r.Range(1, maxPer)
		if total+n > maxOps {
			n = maxOps - total
		}
		if n <= 0 {
			break
		}
		var list []*Cmd
		for i := 0; i < n; i++ {
			c := g.concCmd(m, t, i)
			c.ID = g.id()
			c.Actor = fmt.Sprintf("task%d", t)
			if twoClients {
				c.C = t % 2
			}
			list = append(list, c)
		}
		total += n
		p.Tasks = append(p.Tasks, list)
	}
	mode := r.Intn(3)
	sc := SchedCfg{Mode: mode, Seed: Mix(seed, 5)}
	switch mode {
	case simrt.ModePCT:
		d := r.Range(1, 3)
		for i := 0; i < d; i++ {
			sc.Preempt = append(sc.Preempt, uint64(r.Range(1, 4000)))
		}
		sort.Slice(sc.Preempt, func(i, j int) bool { return sc.Preempt[i] < sc.Preempt[j] })
	case simrt.ModeRandom:
		sc.Period = pick(r, []uint64{2, 8, 32, 128, 512})
	}
	p.Sched = &sc
	return p, g.scenario
}

// finalReads are the observer's operations after all tasks ended; they are
// part of the history.
func finalReads(w *World, defs map[string]TableDef, drv Driver, nextID *int) []*Cmd {
	var out []*Cmd
	id := func() int { *nextID++; return *nextID }
	for i := range w.Tables {
		u := &w.Tables[i]
		out = append(out, &Cmd{ID: id(), Op: "Describe", T: u.Name, Actor: "observer"})
	}
	return out
}

// ExecConc runs a concurrent plan.
func ExecConc(p *Plan) *ConcResult {
	simrt.BeginRun(p.MapSeed, p.MapOrder)
	defer simrt.EndRun()
	res := &ConcResult{Porcupine: "skipped"}
	e := NewEngine("C11", p.World, "", false)
	e.Obs.R = NewRng(Mix(p.Seed, 0x0b5))
	res.RunResult = *e.res
	for i, c := range p.Cmds {
		e.Exec(i, c.clone())
		if e.stop {
			r := e.Finish()
			res.RunResult = *r
			if res.Quiet == "" && len(res.Fails) == 0 {
				res.Quiet = "set-up ended by " + r.OtherRule
			}
			return res
		}
	}
	init := e.M.Clone()
	var evt int64
	hist := make([][]HistOp, len(p.Tasks))
	var fns []func()
	for t := range p.Tasks {
		t := t
		fns = append(fns, func() {
			for _, c := range p.Tasks[t] {
				op := HistOp{Task: t, Cmd: c.clone()}
				evt++
				op.Call = evt
				op.Out = e.Drv[op.Cmd.C].Exec(op.Cmd)
				evt++
				op.Ret = evt
				hist[t] = append(hist[t], op)
			}
		})
	}
	cfg := simrt.Config{Seed: p.Sched.Seed, Mode: p.Sched.Mode, Period: p.Sched.Period, Preempt: p.Sched.Preempt, MaxSteps: 3000000, Races: true}
	sr := simrt.RunTasks(cfg, fns)
	res.Sched = sr
	for t := range hist {
		res.History = append(res.History, hist[t]...)
	}
	sort.SliceStable(res.History, func(i, j int) bool { return res.History[i].Call < res.History[j].Call })
	var fails []Fail
	add := func(rule, format string, a ...any) { fails = append(fails, Fail{rule, fmt.Sprintf(format, a...)}) }
	if sr.Inconsist != "" {
		res.Quiet = "harness: " + sr.Inconsist
	}
	if sr.Deadlock {
		add("C11.dead", "deadlock: no runnable task while task(s) %v are blocked on a mutex (self-lock by task(s) %v)", sr.Blocked, sr.SelfLock)
	}
	if sr.Overrun {
		add("C11.dead", "step bound exceeded: %d steps without all tasks finishing", sr.Steps)
	}
	if len(sr.Leaked) > 0 {
		add("C11.dead", "task(s) %v ended still owning a mutex", sr.Leaked)
	}
	for t, pv := range sr.Panics {
		if pv != nil {
			add("C11.dead", "task %d died with an unrecovered panic: %v", t, pv)
		}
	}
	if sr.RaceCount > 0 {
		var parts []string
		for _, rc := range sr.Races {
			parts = append(parts, fmt.Sprintf("%s by task %d and %s by task %d", siteName(rc.SiteA, rc.WriteA), rc.TaskA, siteName(rc.SiteB, rc.WriteB), rc.TaskB))
		}
		add("C11.race", "%d unordered conflicting access pair(s): %s", sr.RaceCount, strings.Join(parts, "; "))
	}
	// ---- the observer reads the final state; its reads are part of the history
	if len(fails) == 0 {
		nid := 1 << 20
		for ci := range p.World.SDKs {
			drv := e.Drv[ci]
			for i := range p.World.Tables {
				u := &p.World.Tables[i]
				nid++
				dc := &Cmd{ID: nid, C: ci, Op: "Describe", T: u.Name, Actor: "observer"}
				evt++
				op := HistOp{Task: len(p.Tasks), Cmd: dc, Call: evt}
				op.Out = drv.Exec(dc)
				evt++
				op.Ret = evt
				res.History = append(res.History, op)
				if !op.Out.OK() || op.Out.Desc == nil {
					continue
				}
				hashOnly := !strings.Contains(op.Out.Desc.Keys, "RANGE")
				for _, def := range tableDefsOf(p, u.Name) {
					if (def.Range == nil) != hashOnly {
						continue
					}
					for _, k := range u.KeysOf(def) {
						nid++
						g := &Cmd{ID: nid, C: ci, Op: "Get", T: u.Name, Key: k, Actor: "observer"}
						evt++
						o := HistOp{Task: len(p.Tasks), Cmd: g, Call: evt}
						o.Out = drv.Exec(g)
						evt++
						o.Ret = evt
						res.History = append(res.History, o)
					}
					break
				}
				scans := []string{""}
				for name := range op.Out.Desc.Indexes {
					scans = append(scans, name)
				}
				sort.Strings(scans)
				for _, ix := range scans {
					nid++
					s := &Cmd{ID: nid, C: ci, Op: "Scan", T: u.Name, Index: ix, Actor: "observer"}
					evt++
					o := HistOp{Task: len(p.Tasks), Cmd: s, Call: evt}
					o.Out = drv.Exec(s)
					evt++
					o.Ret = evt
					res.History = append(res.History, o)
				}
			}
		}
		// ---- linearizability
		var ops []porcupine.Operation
		attributable := true
		for _, h := range res.History {
			if h.Cmd.Op == "BatchWrite" && h.Out.Class == "internal-server" {
				// C15's clause, under concurrency: under the emulated internal-server
				// failure every request is applied or handed back as unprocessed; an
				// error answer drops requests, whatever the interleaving with the toggle
				add("C11.lin", "BatchWriteItem racing with EmulateFailure returned the emulated error itself (requests neither applied nor reported unprocessed): %s", h.Cmd.String())
			}
			parts, ok := splitBatch(h)
			if !ok {
				attributable = false
				break
			}
			for _, s := range parts {
				ops = append(ops, porcupine.Operation{ClientId: s.Task, Input: s.Cmd, Call: s.Call, Output: s.Out, Return: s.Ret})
			}
		}
		if !attributable {
			res.Quiet = "a batch failed after a partial application: not attributable to per-request operations"
		} else {
			limit := 5 * time.Second
			if Tier == "thorough" {
				limit = 30 * time.Second
			}
			switch porcupine.CheckOperationsTimeout(porcupineModel(init), ops, limit) {
			case porcupine.Ok:
				res.Porcupine = "ok"
			case porcupine.Illegal:
				res.Porcupine = "illegal"
				add("C11.lin", "the recorded history of %d operations has no linearization against the reference model", len(ops))
			default:
				res.Porcupine = "unknown"
			}
		}
	}
	res.Fails = fails
	if len(fails) > 0 {
		res.FailCmd = nil
	}
	// event log: history + scheduler decisions
	var sb strings.Builder
	for _, h := range res.History {
		fmt.Fprintf(&sb, "%d %d-%d %s => %s\n", h.Task, h.Call, h.Ret, h.Cmd.String(), outcomeLine(h.Out))
	}
	fmt.Fprintf(&sb, "switchsig %x steps %d\n", sr.SwitchSig, sr.Steps)
	sum := sha256.Sum256([]byte(sb.String()))
	res.LogHash = hex.EncodeToString(sum[:])
	res.NSteps = len(res.History)
	UndoPokes()
	return res
}

func tableDefsOf(p *Plan, name string) []TableDef {
	var out []TableDef
	see := func(c *Cmd) {
		if c.Op == "Create" && c.T == name && c.Def != nil {
			out = append(out, *c.Def)
		}
	}
	for _, c := range p.Cmds {
		see(c)
	}
	for _, t := range p.Tasks {
		for _, c := range t {
			see(c)
		}
	}
	return out
}

// SiteNames maps site ids to source positions (from the rewriter's table).
var SiteNames map[uint32]string

func siteName(id uint32, write bool) string {
	kind := "read"
	if write {
		kind = "write"
	}
	if n, ok := SiteNames[id]; ok {
		return kind + " at " + n
	}
	return fmt.Sprintf("%s at site %d", kind, id)
}

// ConcTrace renders a concurrent run for humans.
func ConcTrace(p *Plan, r *ConcResult) []string {
	var out []string
	for i, c := range p.Cmds {
		out = append(out, fmt.Sprintf("setup %02d %s", i, c.String()))
	}
	for _, h := range r.History {
		out = append(out, fmt.Sprintf("task%d [%d,%d] %s   => %s", h.Task, h.Call, h.Ret, h.Cmd.String(), outcomeLine(h.Out)))
	}
	out = append(out, fmt.Sprintf("scheduler: mode=%d steps=%d context switches=%d porcupine=%s", p.Sched.Mode, r.Sched.Steps, len(r.Sched.Decisions), r.Porcupine))
	for _, f := range r.Fails {
		out = append(out, "FAIL "+f.Rule+": "+f.Msg)
	}
	return out
}

// MinimiseConc shrinks a failing concurrent plan: drop whole tasks, then
// single commands, then set-up commands, then pre-emptions, while the same
// rule still fails under the same (seeded, hence exactly repeatable) scheduler.
func MinimiseConc(p *Plan, rule string, budget int, keep func(*Plan, *RunResult) bool) (*Plan, int) {
	cur := clonePlan(p)
	runs := 0
	try := func(c *Plan) bool {
		runs++
		if len(c.Tasks) == 0 {
			return false
		}
		r := ExecConc(c)
		for _, f := range r.Fails {
			if f.Rule == rule {
				return keep == nil || keep(c, &r.RunResult)
			}
		}
		return false
	}
	for again := true; again && runs < budget; {
		again = false
		for t := 0; t < len(cur.Tasks) && runs < budget; t++ {
			if len(cur.Tasks) <= 1 {
				break
			}
			c := clonePlan(cur)
			c.Tasks = append(c.Tasks[:t:t], c.Tasks[t+1:]...)
			if try(c) {
				cur, again = c, true
				t--
			}
		}
		for t := 0; t < len(cur.Tasks) && runs < budget; t++ {
			for i := 0; i < len(cur.Tasks[t]) && runs < budget; i++ {
				if len(cur.Tasks[t]) <= 1 {
					break
				}
				c := clonePlan(cur)
				c.Tasks[t] = append(c.Tasks[t][:i:i], c.Tasks[t][i+1:]...)
				if try(c) {
					cur, again = c, true
					i--
				}
			}
		}
		for i := 1; i < len(cur.Cmds) && runs < budget; i++ {
			c := clonePlan(cur)
			c.Cmds = append(c.Cmds[:i:i], c.Cmds[i+1:]...)
			if try(c) {
				cur, again = c, true
				i--
			}
		}
	}
	if cur.Sched.Mode != simrt.ModeNonPreemptive && runs < budget {
		c := clonePlan(cur)
		c.Sched.Mode, c.Sched.Preempt, c.Sched.Period = simrt.ModeNonPreemptive, nil, 0
		if try(c) {
			cur = c
		}
	}
	if cur.MapOrder != simrt.OrderSorted && runs < budget {
		c := clonePlan(cur)
		c.MapOrder = simrt.OrderSorted
		if try(c) {
			cur = c
		}
	}
	return cur, runs
}
