package sim

import (
	"encoding/json"
	"fmt"
	"math/big"
	"strings"
)

func newRat(s string) (*big.Rat, bool) { return new(big.Rat).SetString(s) }

// KeyDef names a key attribute and its scalar type (S, N or B).
type KeyDef struct {
	Name string `json:"name"`
	Type string `json:"type"`
}

// IndexDef describes a secondary index.
type IndexDef struct {
	Name  string  `json:"name"`
	Kind  string  `json:"kind"` // gsi | lsi
	Hash  KeyDef  `json:"hash"`
	Range *KeyDef `json:"range,omitempty"`
}

// TableDef describes a table as a CreateTable request would.
type TableDef struct {
	Name    string     `json:"name"`
	Hash    KeyDef     `json:"hash"`
	Range   *KeyDef    `json:"range,omitempty"`
	Indexes []IndexDef `json:"indexes,omitempty"`
	Billing string     `json:"billing,omitempty"` // PAY_PER_REQUEST | PROVISIONED
}

func (d TableDef) clone() TableDef {
	c := d
	if d.Range != nil {
		r := *d.Range
		c.Range = &r
	}
	c.Indexes = nil
	for _, ix := range d.Indexes {
		c.Indexes = append(c.Indexes, ix.clone())
	}
	return c
}

func (d IndexDef) clone() IndexDef {
	c := d
	if d.Range != nil {
		r := *d.Range
		c.Range = &r
	}
	return c
}

func (d TableDef) index(name string) *IndexDef {
	for i := range d.Indexes {
		if d.Indexes[i].Name == name {
			return &d.Indexes[i]
		}
	}
	return nil
}

// KeyAttrs lists the table's primary key definitions.
func (d TableDef) KeyAttrs() []KeyDef {
	k := []KeyDef{d.Hash}
	if d.Range != nil {
		k = append(k, *d.Range)
	}
	return k
}

func (d IndexDef) KeyAttrs() []KeyDef {
	k := []KeyDef{d.Hash}
	if d.Range != nil {
		k = append(k, *d.Range)
	}
	return k
}

// AttrTypes is the attribute-definition map a CreateTable for d declares.
func (d TableDef) AttrTypes() map[string]string {
	m := map[string]string{}
	for _, k := range d.KeyAttrs() {
		m[k.Name] = k.Type
	}
	for _, ix := range d.Indexes {
		for _, k := range ix.KeyAttrs() {
			m[k.Name] = k.Type
		}
	}
	return m
}

// BatchReq is one request of a BatchWriteItem: a put (Item) or a delete (Key).
type BatchReq struct {
	T    string `json:"t"`
	Put  Item   `json:"put,omitempty"`
	Del  Item   `json:"del,omitempty"`
	Both bool   `json:"both,omitempty"` // malformed: put and delete together
	None bool   `json:"none,omitempty"` // malformed: neither
}

// BatchKey is one key of a BatchGetItem.
type BatchKey struct {
	T   string `json:"t"`
	Key Item   `json:"key"`
}

// Cmd is one self-contained abstract command of a plan (DESIGN.md appendix D).
type Cmd struct {
	ID    int    `json:"id"`
	Actor string `json:"actor,omitempty"`
	Op    string `json:"op"`
	C     int    `json:"c"`
	T     string `json:"t,omitempty"`

	Key       Item              `json:"key,omitempty"`
	KeyExtra  Item              `json:"key_extra,omitempty"` // attributes added to the Key map of the request beyond the key schema
	Item      Item              `json:"item,omitempty"`
	Upd       Update            `json:"upd,omitempty"`
	Cond      *Expr             `json:"cond,omitempty"`
	RetOnFail bool              `json:"ret_on_fail,omitempty"`
	RetVal    string            `json:"ret_val,omitempty"`    // ReturnValues other than the default of the harness (the returned attributes are then not compared)
	NeedN     []string          `json:"need_n,omitempty"`     // the condition compares these attributes with each other: executed only while the target item holds numbers under all of them
	NeedHas   map[string]string `json:"need_has,omitempty"`   // executed only while the target item holds these attributes with these types ("L:S" = a list whose first element is a string)
	Proj      []string          `json:"proj,omitempty"`       // ProjectionExpression of a paginated walk
	ProjNames bool              `json:"proj_names,omitempty"` // the projection names its attributes through #placeholders

	Index    string `json:"index,omitempty"`
	HashAttr string `json:"hash_attr,omitempty"` // Query: partition attribute of the addressed table/index
	Base     string `json:"base,omitempty"`      // Bad: the operation the failing request is built on
	Part     *AV    `json:"part,omitempty"`      // Query: partition value
	Sort     *Expr  `json:"sort,omitempty"`      // Query: optional sort-key condition
	Filter   *Expr  `json:"filter,omitempty"`
	Back     bool   `json:"back,omitempty"` // Query: ScanIndexForward=false
	Limit    int    `json:"limit,omitempty"`
	Walk     int    `json:"walk,omitempty"`

	Batch []BatchReq `json:"batch,omitempty"`
	Gets  []BatchKey `json:"gets,omitempty"`

	Def    *TableDef `json:"def,omitempty"`
	IdxDef *IndexDef `json:"idxdef,omitempty"`
	Helper bool      `json:"helper,omitempty"` // AddTable / AddIndex helper instead of the SDK call

	Fail  string `json:"fail,omitempty"`  // Toggle: none | internal_server | deprecated
	Entry string `json:"entry,omitempty"` // Toggle: emulate | active | deactive

	Bad     string            `json:"bad,omitempty"` // kind of deliberately failing request
	RawExpr string            `json:"raw_expr,omitempty"`
	RawName map[string]string `json:"raw_names,omitempty"`
	RawVals Item              `json:"raw_vals,omitempty"`

	Ref  int    `json:"ref,omitempty"`  // Poke: id of the command whose structure is poked
	Dir  string `json:"dir,omitempty"`  // Poke: in | out
	Slot int    `json:"slot,omitempty"` // Poke: which mutable location

	Native  string `json:"native,omitempty"`  // Native: activate | set | matcher-panic | updater-missing ...
	Verdict bool   `json:"verdict,omitempty"` // Native matcher: the constant answer of the registered Go matcher
}

func (c *Cmd) clone() *Cmd {
	b, _ := json.Marshal(c)
	var n Cmd
	_ = json.Unmarshal(b, &n)
	return &n
}

// String is the human-readable trace line of a command.
func (c *Cmd) String() string {
	var sb strings.Builder
	fmt.Fprintf(&sb, "#%d %s c%d %s", c.ID, c.Op, c.C, c.T)
	if c.Bad != "" {
		fmt.Fprintf(&sb, " bad=%s", c.Bad)
	}
	if c.Key != nil {
		fmt.Fprintf(&sb, " key=%s", c.Key.Canon())
	}
	if c.KeyExtra != nil {
		fmt.Fprintf(&sb, " key+=%s", c.KeyExtra.Canon())
	}
	if c.Item != nil {
		fmt.Fprintf(&sb, " item=%s", c.Item.Canon())
	}
	if c.Upd != nil {
		fmt.Fprintf(&sb, " upd=[%s]", c.Upd.String())
	}
	if c.Cond != nil {
		fmt.Fprintf(&sb, " cond=[%s]", c.Cond.String())
	}
	if c.RawExpr != "" {
		fmt.Fprintf(&sb, " raw=%q", c.RawExpr)
	}
	if c.Index != "" {
		fmt.Fprintf(&sb, " index=%s", c.Index)
	}
	if c.Part != nil {
		fmt.Fprintf(&sb, " part=%s", c.Part.Canon())
	}
	if c.Sort != nil {
		fmt.Fprintf(&sb, " sort=[%s]", c.Sort.String())
	}
	if c.Filter != nil {
		fmt.Fprintf(&sb, " filter=[%s]", c.Filter.String())
	}
	if c.Back {
		sb.WriteString(" backward")
	}
	if c.Limit > 0 {
		fmt.Fprintf(&sb, " limit=%d", c.Limit)
	}
	if c.RetVal != "" {
		fmt.Fprintf(&sb, " return=%s", c.RetVal)
	}
	if len(c.Proj) > 0 {
		fmt.Fprintf(&sb, " projection=%v", c.Proj)
	}
	if c.Op == "Open" || c.Op == "Resume" {
		fmt.Fprintf(&sb, " walk=%d", c.Walk)
	}
	for _, r := range c.Batch {
		switch {
		case r.Both:
			fmt.Fprintf(&sb, " [%s both]", r.T)
		case r.None:
			fmt.Fprintf(&sb, " [%s none]", r.T)
		case r.Put != nil:
			fmt.Fprintf(&sb, " [%s put %s]", r.T, r.Put.Canon())
		default:
			fmt.Fprintf(&sb, " [%s del %s]", r.T, r.Del.Canon())
		}
	}
	for _, g := range c.Gets {
		fmt.Fprintf(&sb, " [%s get %s]", g.T, g.Key.Canon())
	}
	if c.Def != nil {
		b, _ := json.Marshal(c.Def)
		fmt.Fprintf(&sb, " def=%s", b)
	}
	if c.IdxDef != nil {
		b, _ := json.Marshal(c.IdxDef)
		fmt.Fprintf(&sb, " idx=%s", b)
	}
	if c.Helper {
		sb.WriteString(" helper")
	}
	if c.Op == "Toggle" {
		fmt.Fprintf(&sb, " %s/%s", c.Entry, c.Fail)
	}
	if c.Op == "Poke" {
		fmt.Fprintf(&sb, " ref=#%d %s slot=%d", c.Ref, c.Dir, c.Slot)
	}
	if c.Native != "" {
		fmt.Fprintf(&sb, " native=%s", c.Native)
		if c.Native == "matcher" {
			fmt.Fprintf(&sb, " answers %v", c.Verdict)
		}
	}
	return sb.String()
}

// TableDesc is the normalised part of a table description the properties fix.
type TableDesc struct {
	Name      string            `json:"name"`
	ItemCount int64             `json:"item_count"`
	Keys      string            `json:"keys"`      // "h:HASH,r:RANGE"
	Indexes   map[string]string `json:"indexes"`   // name -> "gsi|lsi h:HASH,r:RANGE"
	IdxCount  map[string]int64  `json:"idx_count"` // name -> ItemCount, -1 when the SDK output carries none
}

// Outcome is the normalised result of executing a command (observed or modelled).
type Outcome struct {
	Class string `json:"class"` // ok ccf validation not-found in-use internal-server forced other:<code> panic-* never-returns
	Err   string `json:"err,omitempty"`

	Item    Item   `json:"item,omitempty"` // Get / Update ALL_NEW / Delete ALL_OLD; nil = nothing
	Items   []Item `json:"items,omitempty"`
	Count   int    `json:"count,omitempty"`
	LEK     Item   `json:"lek,omitempty"` // nil = none
	CCFItem Item   `json:"ccf_item,omitempty"`
	HasCCF  bool   `json:"has_ccf,omitempty"`

	Desc *TableDesc `json:"desc,omitempty"`

	Unproc      []BatchReq        `json:"unproc,omitempty"`
	Resp        map[string][]Item `json:"resp,omitempty"`
	UnprocKeys  []BatchKey        `json:"unproc_keys,omitempty"`
	UnprocEmpty []string          `json:"unproc_empty,omitempty"` // tables named in UnprocessedItems / UnprocessedKeys without any request or key
}

func (o Outcome) OK() bool { return o.Class == "ok" }

// Failed: the call returned an error or aborted.
func (o Outcome) Failed() bool { return o.Class != "ok" }

func schemaString(keys []KeyDef) string {
	parts := []string{keys[0].Name + ":HASH"}
	if len(keys) > 1 {
		parts = append(parts, keys[1].Name+":RANGE")
	}
	return strings.Join(parts, ",")
}
