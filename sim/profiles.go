package sim

// Profiles: per property, the world shapes, command mix and fault kinds of its
// check (DESIGN.md section 4). Weights are relative; every run draws its own
// subset and scaling (swarm).

var faultKinds = []string{"native", "keyextra", "batchpartial", "bad", "idxtype", "keyupdate", "batchbad", "toggle", "poke", "chase", "drop", "clear", "idxdrop", "idxcreate", "create"}

func base(prop string) *Profile {
	return &Profile{Prop: prop, MinClients: 1, MaxClients: 2, MaxTables: 2, MinIdx: 0, MaxIdx: 2, RangeProb: 0.6, KeyStyle: "plain",
		MinSteps: 8, MaxSteps: 50, FaultFree: 0.33, Faults: faultKinds, Weights: map[string]float64{}}
}

// Profiles returns the profile of a property, nil if the property has no
// step-atomic check.
func ProfileFor(prop string) *Profile {
	p := base(prop)
	w := p.Weights
	switch prop {
	case "C01":
		p.MaxIdx = 2
		p.AltKeyStyles, p.AltKeyProb = []string{"adversarial", "numeric"}, 0.3
		w["put"], w["update"], w["delete"], w["get"] = 4, 4, 3, 3
		w["putcond"], w["updcond"], w["delcond"] = 0.4, 0.4, 0.4
		w["bad"], w["idxtype"], w["toggle"], w["scan"] = 0.3, 0.2, 0.1, 0.3
		w["idxdrop"], w["idxcreate"] = 0.15, 0.15
		p.LateFailBias = 0.25
	case "C02":
		p.MaxIdx = 3
		p.AltKeyStyles, p.AltKeyProb = []string{"numeric"}, 0.4
		p.RangeProb = 0.8
		w["put"], w["update"], w["delete"], w["get"] = 4, 2, 1.5, 0.5
		w["query"], w["scan"] = 5, 3
		w["native"] = 0.2
		w["idxtype"], w["bad"], w["clear"], w["idxcreate"], w["idxdrop"] = 0.2, 0.2, 0.4, 0.3, 0.1
	case "C03":
		p.MinIdx, p.MaxIdx = 1, 3
		p.MistypedAttrs = true
		w["put"], w["update"], w["delete"], w["get"] = 4, 5, 3, 0.5
		w["query"], w["scan"], w["describe"] = 1.5, 1, 0.5
		w["clear"], w["idxcreate"], w["idxdrop"] = 0.5, 0.6, 0.3
		w["idxtype"] = 0.2
	case "C04":
		p.MaxIdx = 3
		p.AltKeyStyles, p.AltKeyProb = []string{"numeric"}, 0.25
		p.RangeProb = 0.8
		p.MaxClients = 1
		w["put"], w["update"], w["delete"] = 3, 1, 1
		w["open"], w["resume"], w["chase"] = 2, 5, 2
		p.Faults = append(p.Faults, "update", "delete")
	case "C05":
		p.MaxIdx = 2
		w["put"], w["update"], w["delete"], w["get"] = 3, 1, 0.7, 0.5
		w["putcond"], w["updcond"], w["delcond"] = 3, 3, 3
		w["idxtype"], w["bad"] = 0.3, 0.6
		p.LateFailBias = 0.5
	case "C08":
		p.MinIdx, p.MaxIdx = 0, 3
		p.MistypedAttrs = true
		p.NativeUpdaters = true
		w["put"], w["update"], w["delete"], w["get"] = 3, 3, 2, 0.5
		w["bad"], w["idxtype"], w["keyupdate"], w["batchbad"], w["batchw"] = 4, 2.5, 0.5, 1, 1
		w["batchpartial"], w["keyextra"] = 1.5, 0.4
		w["idxcreate"], w["idxdrop"] = 0.5, 0.2
		w["native"], w["scan"] = 0.5, 0.8
		w["putcond"], w["updcond"], w["delcond"] = 0.8, 0.8, 0.8
		w["toggle"] = 0.3
		p.FaultFree = 0.1
	case "C13":
		p.KeyStyle = "adversarial"
		p.AltKeyStyles, p.AltKeyProb = []string{"numeric"}, 0.25
		p.RangeProb = 0.8
		p.MaxIdx = 2
		w["put"], w["update"], w["delete"], w["get"] = 4, 3, 3, 3
		w["bad"], w["keyupdate"], w["scan"], w["query"] = 2, 2, 0.5, 0.5
		w["keyextra"] = 2
		w["updcond"], w["delcond"] = 0.3, 0.3
		w["clear"] = 0.3
		// the caller's key values stay the caller's: scribbling over the key of a
		// request after the call must not rename the stored item
		p.Retain = true
		w["poke"] = 1
	case "C14":
		p.Retain = true
		p.NativeUpdaters = true
		w["native"] = 0.25
		p.MaxClients = 2
		p.MinClients = 1
		p.MaxIdx = 1
		p.MaxSteps = 40
		w["put"], w["update"], w["delete"], w["get"] = 3, 2.5, 1, 2.5
		w["query"], w["scan"], w["batchw"], w["batchg"] = 1, 1, 0.5, 0.5
		w["updcond"], w["putcond"], w["open"], w["resume"] = 0.6, 0.3, 0.3, 0.6
		w["poke"] = 5
		p.FaultFree = 0.05
	case "C15":
		w["put"], w["update"], w["delete"], w["get"] = 3, 2, 1.5, 2
		w["query"], w["scan"], w["batchw"], w["batchg"], w["transact"] = 1, 1, 2, 1, 0.7
		w["describe"], w["putcond"], w["updcond"] = 0.5, 0.3, 0.3
		w["drop"], w["create"], w["delcond"] = 0.3, 0.4, 0.3
		w["toggle"] = 3
		p.FaultFree = 0
	case "C17":
		p.MinClients, p.MaxClients = 1, 1
		w["put"], w["update"], w["delete"], w["get"] = 3, 3, 2, 2
		w["query"], w["scan"], w["batchw"], w["batchg"], w["transact"] = 2, 1.5, 1, 0.7, 0.2
		w["putcond"], w["updcond"], w["delcond"] = 0.7, 0.7, 0.7
		w["describe"], w["create"], w["drop"], w["clear"], w["idxcreate"], w["idxdrop"] = 1, 0.4, 0.3, 0.3, 0.3, 0.2
		w["toggle"], w["open"], w["resume"] = 0.9, 0.5, 1.2
		w["idxtype"], w["bad"], w["batchbad"], w["batchpartial"] = 0.2, 0.4, 0.4, 0.3
		w["native"] = 0.3
		p.NativeUpdaters = true
	case "C18":
		p.MinClients, p.MaxClients = 2, 2
		p.MaxTables = 3
		p.MaxIdx = 3
		w["create"], w["drop"], w["clear"], w["idxcreate"], w["idxdrop"], w["describe"] = 2.5, 2, 1.2, 1.2, 0.8, 2.5
		w["put"], w["update"], w["delete"], w["get"], w["scan"], w["query"] = 4, 1.5, 1, 1, 0.7, 0.7
		w["open"], w["resume"], w["batchw"] = 0.4, 0.8, 0.5
		w["native"] = 0.9
		w["toggle"] = 0.3
		p.FaultFree = 0
	case "C19":
		p.MinClients, p.MaxClients = 1, 1
		p.MaxTables = 3
		p.MaxIdx = 2
		w["batchw"], w["batchg"] = 5, 3
		w["put"], w["update"], w["delete"], w["get"] = 2, 1, 1, 0.5
		w["batchbad"], w["idxtype"], w["batchpartial"] = 0.3, 0.1, 0.4
		p.AltKeyStyles, p.AltKeyProb = []string{"numeric"}, 0.25
	default:
		return nil
	}
	switch prop {
	case "C01", "C02", "C03", "C04", "C05", "C13", "C19":
		p.BigTables = true
	}
	switch prop {
	case "C01", "C05", "C08", "C14", "C19":
		p.Unusual = true
	}
	if Tier == "thorough" {
		// deeper bounds: longer histories, one more table, more keys per table
		p.MaxSteps = p.MaxSteps * 8 / 5
		if p.MaxTables < 3 {
			p.MaxTables++
		}
		p.BigUniverse = true
	}
	return p
}
