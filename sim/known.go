package sim

import "strings"

// Trigger predicates of listed known findings, evaluated on the MINIMISED
// plan's violating command (DESIGN.md section 6).
func Trigger(name string, p *Plan, r *RunResult) bool {
	cmd := r.FailCmd
	if cmd == nil {
		return false
	}
	switch name {
	case "batchget-absent-key":
		// BatchGet whose key set contains a key absent from the table
		if cmd.Op != "BatchGet" {
			return false
		}
		// ... handed back as unprocessed, and nothing else wrong with the answer
		for _, s := range r.Steps {
			if s.Cmd.ID == cmd.ID && !s.Twin {
				n := 0
				for _, f := range s.Fails {
					if f.Rule != "C19.get" {
						continue
					}
					if !strings.Contains(f.Msg, "none of which has a stored item") {
						return false
					}
					n++
				}
				return n > 0
			}
		}
	case "v1-batchget":
		return cmd.Op == "BatchGet" && (p.World.SDKs[cmd.C] == "v1" || (p.Twin == "sdk" && cmd.C%2 == 0))
	case "number-sort-key-order":
		for _, f := range r.Fails {
			if f.Rule == "C02.order" && (strings.Contains(f.Msg, "sort key type N, ordered differently by value and by text") || strings.Contains(f.Msg, "sort key type B")) {
				return true
			}
		}
	case "update-names-key-attribute":
		if cmd.Op != "Update" {
			return false
		}
		for _, t := range cmd.Upd.Targets() {
			if _, ok := cmd.Key[t]; ok {
				return true
			}
		}
	}
	return false
}
