package sim

import (
	"sort"
	"strings"
)

// The reference model: what a remote DynamoDB would show for the workload
// fragment (DESIGN.md 2.4, appendix A). It shares no code with minidyn.

// MTable is one table of the model.
type MTable struct {
	Def   TableDef
	Items map[string]Item // key id -> item
}

// MClient is one client (one independent database).
type MClient struct {
	Tables map[string]*MTable
	Fail   string // none | internal_server | deprecated
	Native bool
	// Matchers: Go filter matchers registered on this client\'s native
	// interpreter: table + "|" + filter text -> constant answer
	Matchers map[string]bool
	Panicky  map[string]bool   // registered matchers that panic when called
	Updaters map[string]string // table + "|" + update text -> "panic" | "set": registered Go updaters
}

// Model is the whole simulated world.
type Model struct {
	Clients []*MClient
}

func NewModel(nClients int) *Model {
	m := &Model{}
	for i := 0; i < nClients; i++ {
		m.Clients = append(m.Clients, &MClient{Tables: map[string]*MTable{}, Fail: "none"})
	}
	return m
}

// Clone deep-copies the model.
func (m *Model) Clone() *Model {
	n := &Model{}
	for _, c := range m.Clients {
		nc := &MClient{Tables: map[string]*MTable{}, Fail: c.Fail, Native: c.Native}
		if c.Matchers != nil {
			nc.Matchers = map[string]bool{}
			for k, v := range c.Matchers {
				nc.Matchers[k] = v
			}
		}
		if c.Updaters != nil {
			nc.Updaters = map[string]string{}
			for k, v := range c.Updaters {
				nc.Updaters[k] = v
			}
		}
		if c.Panicky != nil {
			nc.Panicky = map[string]bool{}
			for k, v := range c.Panicky {
				nc.Panicky[k] = v
			}
		}
		for name, t := range c.Tables {
			nt := &MTable{Def: t.Def.clone(), Items: make(map[string]Item, len(t.Items))}
			for k, it := range t.Items {
				nt.Items[k] = it.Clone()
			}
			nc.Tables[name] = nt
		}
		n.Clients = append(n.Clients, nc)
	}
	return n
}

// Canon encodes the whole model state deterministically.
func (m *Model) Canon() string {
	var sb strings.Builder
	for i, c := range m.Clients {
		sb.WriteString("client")
		sb.WriteByte(byte('0' + i))
		sb.WriteString(" fail=" + c.Fail)
		if c.Native {
			sb.WriteString(" native")
		}
		for _, k := range sortedKeys(c.Matchers) {
			sb.WriteString(" matcher[" + k + "]")
		}
		for _, name := range sortedKeys(c.Tables) {
			t := c.Tables[name]
			sb.WriteString("\n " + name + " " + schemaString(t.Def.KeyAttrs()))
			for _, ix := range t.sortedIndexes() {
				sb.WriteString(" " + ix.Name + "/" + ix.Kind + "/" + schemaString(ix.KeyAttrs()))
			}
			for _, k := range sortedKeys(t.Items) {
				sb.WriteString("\n  " + t.Items[k].Canon())
			}
		}
		sb.WriteByte('\n')
	}
	return sb.String()
}

func (t *MTable) sortedIndexes() []IndexDef {
	ix := append([]IndexDef{}, t.Def.Indexes...)
	sort.Slice(ix, func(i, j int) bool { return ix[i].Name < ix[j].Name })
	return ix
}

// KeyID is the identity of an item: the tuple of its typed key values.
func KeyID(def TableDef, it Item) string {
	id := it[def.Hash.Name].Canon()
	if def.Range != nil {
		id += "|" + it[def.Range.Name].Canon()
	}
	return id
}

// keyProblem classifies a key map against a key schema:
// "" fine, "missing", "type", "extra".
func keyProblem(keys []KeyDef, key Item, exact bool) string {
	for _, k := range keys {
		v, ok := key[k.Name]
		if !ok {
			return "missing"
		}
		if v.T != k.Type {
			return "type"
		}
	}
	if exact && len(key) != len(keys) {
		return "extra"
	}
	return ""
}

// indexProblem: an attribute named as a key of any index, present with another type.
func indexProblem(def TableDef, it Item) bool {
	for _, ix := range def.Indexes {
		for _, k := range ix.KeyAttrs() {
			if v, ok := it[k.Name]; ok {
				if v.T != k.Type {
					return true
				}
			}
		}
	}
	return false
}

// InIndex: the item possesses all key attributes of the index.
func InIndex(ix IndexDef, it Item) bool {
	for _, k := range ix.KeyAttrs() {
		v, ok := it[k.Name]
		if !ok || v.T != k.Type {
			return false
		}
	}
	return true
}

func keyOf(def TableDef, it Item) Item {
	k := Item{}
	for _, kd := range def.KeyAttrs() {
		if v, ok := it[kd.Name]; ok {
			k[kd.Name] = v.Clone()
		}
	}
	return k
}

// SortItems orders items by the typed sort key (then by primary key id so that
// the model order is deterministic; ties are compared as multisets by oracles).
func SortItems(def TableDef, rng *KeyDef, items []Item, back bool) {
	sort.SliceStable(items, func(i, j int) bool {
		a, b := items[i], items[j]
		c := 0
		if rng != nil {
			c, _ = CmpScalar(a[rng.Name], b[rng.Name])
		}
		if c == 0 {
			// deterministic tie-break: primary key, typed
			c, _ = CmpScalar(a[def.Hash.Name], b[def.Hash.Name])
			if c == 0 && def.Range != nil {
				c, _ = CmpScalar(a[def.Range.Name], b[def.Range.Name])
			}
		}
		if back {
			return c > 0
		}
		return c < 0
	})
}

// Select returns the model's answer to a Query (part != nil) or Scan on the
// table or one of its indexes, ordered for queries.
func (t *MTable) Select(index string, part *AV, sortc, filter *Expr, back bool) []Item {
	hash, rng := t.Def.Hash, t.Def.Range
	var ix *IndexDef
	if index != "" {
		ix = t.Def.index(index)
		if ix == nil {
			return nil
		}
		hash, rng = ix.Hash, ix.Range
	}
	var out []Item
	for _, k := range sortedKeys(t.Items) {
		it := t.Items[k]
		if ix != nil && !InIndex(*ix, it) {
			continue
		}
		if part != nil {
			if !it[hash.Name].Equal(*part) {
				continue
			}
			if sortc != nil && !sortc.Eval(it) {
				continue
			}
		}
		if filter != nil && !filter.Eval(it) {
			continue
		}
		out = append(out, it.Clone())
	}
	if part != nil {
		SortItems(t.Def, rng, out, back)
	}
	return out
}

func (t *MTable) describe() *TableDesc {
	d := &TableDesc{Name: t.Def.Name, ItemCount: int64(len(t.Items)), Keys: schemaString(t.Def.KeyAttrs()),
		Indexes: map[string]string{}, IdxCount: map[string]int64{}}
	for _, ix := range t.Def.Indexes {
		d.Indexes[ix.Name] = ix.Kind + " " + schemaString(ix.KeyAttrs())
		n := int64(0)
		for _, it := range t.Items {
			if InIndex(ix, it) {
				n++
			}
		}
		d.IdxCount[ix.Name] = n
	}
	return d
}

// Expect is the model's verdict on a command.
type Expect struct {
	Out Outcome
	// AnyFail: the statement only says "rejected": any error class or panic is
	// accepted, success is not.
	AnyFail bool
	// Unspecified: no property fixes the outcome (the run ends quietly if the
	// implementation's answer makes the model state unknowable).
	Unspecified bool
	// MayAccept: rejection expected, but acceptance is not a violation of any
	// claimed property; the run ends quietly on acceptance.
	MayAccept bool
	// Matching (Open/Resume): the model's matching set at this call.
	Matching []Item
	// Applied: the command changed the model state.
	Applied bool
}

func failClass(f string) string {
	switch f {
	case "internal_server":
		return "internal-server"
	case "deprecated":
		return "forced"
	}
	return ""
}

func isDataOp(op string) bool {
	switch op {
	case "Put", "Update", "Delete", "Get", "Query", "Scan", "Open", "Resume", "BatchWrite", "BatchGet", "Transact", "Bad":
		return true
	}
	return false
}

// Apply executes cmd on the model and returns what a faithful implementation
// answers.
func (m *Model) Apply(cmd *Cmd) Expect {
	c := m.Clients[cmd.C]
	if isDataOp(cmd.Op) && c.Fail != "none" {
		// C15: every data call returns the configured error, nothing changes.
		if cmd.Op == "BatchWrite" && c.Fail == "internal_server" && !batchMalformed(cmd) {
			return Expect{Out: Outcome{Class: "ok", Unproc: append([]BatchReq{}, cmd.Batch...)}}
		}
		if cmd.Op == "Bad" || (cmd.Op == "BatchWrite" && batchMalformed(cmd)) {
			// a malformed request under an active failure: either error is fine
			return Expect{AnyFail: true}
		}
		return Expect{Out: Outcome{Class: failClass(c.Fail)}}
	}
	switch cmd.Op {
	case "Create":
		if _, ok := c.Tables[cmd.T]; ok {
			return Expect{Out: Outcome{Class: "in-use"}}
		}
		t := &MTable{Def: cmd.Def.clone(), Items: map[string]Item{}}
		c.Tables[cmd.T] = t
		return Expect{Out: Outcome{Class: "ok", Desc: t.describe()}, Applied: true}
	case "Drop":
		t, ok := c.Tables[cmd.T]
		if !ok {
			return Expect{Out: Outcome{Class: "not-found"}}
		}
		d := t.describe()
		delete(c.Tables, cmd.T)
		return Expect{Out: Outcome{Class: "ok", Desc: d}, Applied: true}
	case "Clear":
		t, ok := c.Tables[cmd.T]
		if !ok {
			return Expect{Out: Outcome{Class: "not-found"}}
		}
		t.Items = map[string]Item{}
		return Expect{Out: Outcome{Class: "ok"}, Applied: true}
	case "Describe":
		t, ok := c.Tables[cmd.T]
		if !ok {
			return Expect{Out: Outcome{Class: "not-found"}}
		}
		return Expect{Out: Outcome{Class: "ok", Desc: t.describe()}}
	case "IndexCreate":
		t, ok := c.Tables[cmd.T]
		if !ok {
			return Expect{Out: Outcome{Class: "not-found"}}
		}
		if t.Def.index(cmd.IdxDef.Name) != nil {
			return Expect{Unspecified: true}
		}
		if cmd.Helper && t.Def.Billing != "PAY_PER_REQUEST" {
			// the AddIndex helper sends no provisioned throughput: a provisioned table rejects that
			return Expect{AnyFail: true}
		}
		t.Def.Indexes = append(t.Def.Indexes, cmd.IdxDef.clone())
		return Expect{Out: Outcome{Class: "ok", Desc: t.describe()}, Applied: true}
	case "IndexDrop":
		t, ok := c.Tables[cmd.T]
		if !ok {
			return Expect{Out: Outcome{Class: "not-found"}}
		}
		if t.Def.index(cmd.Index) == nil {
			return Expect{AnyFail: true}
		}
		var keep []IndexDef
		for _, ix := range t.Def.Indexes {
			if ix.Name != cmd.Index {
				keep = append(keep, ix)
			}
		}
		t.Def.Indexes = keep
		return Expect{Out: Outcome{Class: "ok", Desc: t.describe()}, Applied: true}
	case "Toggle":
		c.Fail = cmd.Fail
		return Expect{Out: Outcome{Class: "ok"}, Applied: true}
	case "Poke", "Observe", "Native":
		if cmd.Op == "Native" && cmd.Native == "reset" {
			// SetInterpreter(a fresh native interpreter): every registered Go function is gone
			c.Matchers, c.Updaters, c.Panicky = nil, nil, nil
		}
		if cmd.Op == "Native" && cmd.Native == "activate" {
			c.Native = true
		}
		if cmd.Op == "Native" && cmd.Native == "matcher" {
			if c.Matchers == nil {
				c.Matchers = map[string]bool{}
			}
			c.Matchers[cmd.T+"|"+FilterText(cmd)] = cmd.Verdict
			delete(c.Panicky, cmd.T+"|"+FilterText(cmd))
		}
		if cmd.Op == "Native" && (cmd.Native == "updater-panic" || cmd.Native == "updater-set") {
			if c.Updaters == nil {
				c.Updaters = map[string]string{}
			}
			c.Updaters[cmd.T+"|"+UpdText(cmd)] = strings.TrimPrefix(cmd.Native, "updater-")
		}
		if cmd.Op == "Native" && cmd.Native == "matcher-panic" {
			if c.Panicky == nil {
				c.Panicky = map[string]bool{}
			}
			c.Panicky[cmd.T+"|"+FilterText(cmd)] = true
			delete(c.Matchers, cmd.T+"|"+FilterText(cmd))
		}
		return Expect{Out: Outcome{Class: "ok"}}
	case "Transact":
		return Expect{Out: Outcome{Class: "ok"}}
	case "Bad":
		return m.applyBad(c, cmd)
	}

	// data operations on one table
	if cmd.Op == "BatchWrite" {
		return m.applyBatchWrite(c, cmd)
	}
	if cmd.Op == "BatchGet" {
		return m.applyBatchGet(c, cmd)
	}
	t, ok := c.Tables[cmd.T]
	if !ok {
		return Expect{Out: Outcome{Class: "not-found"}}
	}
	switch cmd.Op {
	case "Put":
		if p := keyProblem(t.Def.KeyAttrs(), cmd.Item, false); p != "" {
			return Expect{Out: Outcome{Class: "validation"}}
		}
		if indexProblem(t.Def, cmd.Item) {
			return Expect{Out: Outcome{Class: "validation"}}
		}
		id := KeyID(t.Def, cmd.Item)
		cur := t.Items[id]
		if cmd.Cond != nil && !cmd.Cond.Eval(orEmpty(cur)) {
			return Expect{Out: ccf(cur, cmd.RetOnFail)}
		}
		t.Items[id] = cmd.Item.Clone()
		return Expect{Out: Outcome{Class: "ok"}, Applied: true}
	case "Get":
		if p := keyProblem(t.Def.KeyAttrs(), cmd.Key, true); p != "" {
			return Expect{Out: Outcome{Class: "validation"}}
		}
		return Expect{Out: Outcome{Class: "ok", Item: t.Items[KeyID(t.Def, cmd.Key)].Clone()}}
	case "Delete":
		if p := keyProblem(t.Def.KeyAttrs(), cmd.Key, true); p != "" {
			return Expect{Out: Outcome{Class: "validation"}}
		}
		id := KeyID(t.Def, cmd.Key)
		cur := t.Items[id]
		if cmd.Cond != nil && !cmd.Cond.Eval(orEmpty(cur)) {
			return Expect{Out: ccf(cur, cmd.RetOnFail)}
		}
		delete(t.Items, id)
		return Expect{Out: Outcome{Class: "ok", Item: cur.Clone()}, Applied: cur != nil}
	case "Update":
		if p := keyProblem(t.Def.KeyAttrs(), cmd.Key, true); p != "" {
			return Expect{Out: Outcome{Class: "validation"}}
		}
		id := KeyID(t.Def, cmd.Key)
		cur := t.Items[id]
		if cmd.Cond != nil && !cmd.Cond.Eval(orEmpty(cur)) {
			return Expect{Out: ccf(cur, cmd.RetOnFail)}
		}
		if c.Native {
			switch c.Updaters[cmd.T+"|"+UpdText(cmd)] {
			case "set":
				// the registered Go updater is what the operation uses: it sets a
				base := cur.Clone()
				if base == nil {
					base = keyOf(t.Def, cmd.Key)
				}
				base["a"] = S("native-updater")
				if indexProblem(t.Def, base) {
					return Expect{Out: Outcome{Class: "validation"}}
				}
				t.Items[id] = base
				return Expect{Out: Outcome{Class: "ok", Item: base.Clone()}, Applied: true}
			default:
				if anagramOfAny(cmd.T+"|"+UpdText(cmd), c.Updaters) {
					// the native interpreter files its functions under the sorted
					// characters of the text: a text that only permutes those of a
					// registered one may or may not reach it. Nothing is stated.
					return Expect{Unspecified: true}
				}
				// no updater registered for this table and text (unsupported-feature
				// error), or one that panics: the call fails, nothing changes
				return Expect{AnyFail: true}
			}
		}
		for _, tg := range cmd.Upd.Targets() {
			for _, k := range t.Def.KeyAttrs() {
				if tg == k.Name {
					return Expect{Out: Outcome{Class: "validation"}}
				}
			}
		}
		base := cur
		if base == nil {
			base = keyOf(t.Def, cmd.Key)
		}
		next, err := cmd.Upd.Apply(base)
		if err != nil {
			return Expect{Out: Outcome{Class: "validation"}}
		}
		if indexProblem(t.Def, next) {
			return Expect{Out: Outcome{Class: "validation"}}
		}
		t.Items[id] = next
		return Expect{Out: Outcome{Class: "ok", Item: next.Clone()}, Applied: true}
	case "Query", "Scan", "Open", "Resume":
		if cmd.Index != "" && t.Def.index(cmd.Index) == nil {
			return Expect{AnyFail: true, MayAccept: true}
		}
		filter := cmd.Filter
		if c.Native && filter != nil && c.Panicky[cmd.T+"|"+FilterText(cmd)] && len(t.Items) > 0 {
			// a registered Go matcher that panics (user code aborting inside the
			// call, fault F2): the call aborts, nothing changes, the client survives
			if cmd.Index == "" || len(t.Select(cmd.Index, nil, nil, nil, false)) > 0 {
				return Expect{AnyFail: true, MayAccept: true}
			}
		}
		if _, ok := c.Matchers[cmd.T+"|"+FilterText(cmd)]; !ok && c.Native && filter != nil && (anagramOfAny(cmd.T+"|"+FilterText(cmd), c.Matchers) || anagramOfAny(cmd.T+"|"+FilterText(cmd), c.Panicky)) {
			return Expect{Unspecified: true}
		}
		if verdict, ok := c.Matchers[cmd.T+"|"+FilterText(cmd)]; ok && c.Native && filter != nil {
			// native interpreter active and a Go matcher registered under exactly
			// this table, kind and text: its answer is what the operation uses
			if verdict {
				filter = nil
			} else {
				filter = &Expr{Op: "and", Args: []*Expr{{Op: "exists", Path: &Path{Attr: t.Def.Hash.Name}}, {Op: "not_exists", Path: &Path{Attr: t.Def.Hash.Name}}}}
			}
		}
		items := t.Select(cmd.Index, cmd.Part, cmd.Sort, filter, cmd.Back)
		if cmd.Op == "Open" || cmd.Op == "Resume" {
			return Expect{Out: Outcome{Class: "ok"}, Matching: items}
		}
		return Expect{Out: Outcome{Class: "ok", Items: items, Count: len(items)}}
	}
	panic("model: unknown op " + cmd.Op)
}

// anagramOfAny: key is not in m, but some key of m has the same characters in
// another order.
func anagramOfAny[V any](key string, m map[string]V) bool {
	if _, ok := m[key]; ok {
		return false
	}
	sorted := func(s string) string {
		table, text, _ := strings.Cut(s, "|")
		b := []byte(strings.TrimSpace(text))
		sort.Slice(b, func(i, j int) bool { return b[i] < b[j] })
		return table + "|" + string(b)
	}
	want := sorted(key)
	for k := range m {
		if len(k) == len(key) && sorted(k) == want {
			return true
		}
	}
	return false
}

func orEmpty(it Item) Item {
	if it == nil {
		return Item{}
	}
	return it
}

func ccf(cur Item, ret bool) Outcome {
	o := Outcome{Class: "ccf"}
	if ret {
		o.HasCCF = true
		o.CCFItem = cur.Clone()
	}
	return o
}

func batchMalformed(cmd *Cmd) bool {
	if len(cmd.Batch) > 25 || len(cmd.Batch) == 0 {
		return true
	}
	for _, r := range cmd.Batch {
		if r.Both || r.None {
			return true
		}
	}
	return false
}

// applyBatchWrite: C19 - a successful batch equals its decomposition in
// request order per table. Generated batches never name one key twice (DynamoDB
// rejects that), so cross-table order is irrelevant.
func (m *Model) applyBatchWrite(c *MClient, cmd *Cmd) Expect {
	if batchMalformed(cmd) {
		return Expect{Out: Outcome{Class: "validation"}}
	}
	// validate everything first: a batch with an invalid request is rejected as a whole
	for _, r := range cmd.Batch {
		t, ok := c.Tables[r.T]
		if !ok {
			return Expect{Out: Outcome{Class: "not-found"}}
		}
		if r.Put != nil {
			if keyProblem(t.Def.KeyAttrs(), r.Put, false) != "" || indexProblem(t.Def, r.Put) {
				return Expect{Out: Outcome{Class: "validation"}}
			}
		} else if keyProblem(t.Def.KeyAttrs(), r.Del, true) != "" {
			return Expect{Out: Outcome{Class: "validation"}}
		}
	}
	applied := false
	for _, r := range cmd.Batch {
		t := c.Tables[r.T]
		if r.Put != nil {
			t.Items[KeyID(t.Def, r.Put)] = r.Put.Clone()
			applied = true
		} else {
			id := KeyID(t.Def, r.Del)
			if _, ok := t.Items[id]; ok {
				applied = true
			}
			delete(t.Items, id)
		}
	}
	return Expect{Out: Outcome{Class: "ok"}, Applied: applied}
}

func (m *Model) applyBatchGet(c *MClient, cmd *Cmd) Expect {
	resp := map[string][]Item{}
	for _, g := range cmd.Gets {
		t, ok := c.Tables[g.T]
		if !ok {
			return Expect{AnyFail: true, MayAccept: true}
		}
		if keyProblem(t.Def.KeyAttrs(), g.Key, true) != "" {
			return Expect{AnyFail: true, MayAccept: true}
		}
		if _, ok := resp[g.T]; !ok {
			resp[g.T] = []Item{}
		}
		if it := t.Items[KeyID(t.Def, g.Key)]; it != nil {
			resp[g.T] = append(resp[g.T], it.Clone())
		}
	}
	return Expect{Out: Outcome{Class: "ok", Resp: resp}}
}

// applyBad: requests built to fail (fault classes F2-F4). The model never
// changes; what is fixed about the answer depends on the kind.
func (m *Model) applyBad(c *MClient, cmd *Cmd) Expect {
	switch cmd.Bad {
	case "key-missing", "key-type":
		// C13: rejected with a validation error
		if _, ok := c.Tables[cmd.T]; !ok {
			return Expect{AnyFail: true}
		}
		return Expect{Out: Outcome{Class: "validation"}}
	case "unknown-table":
		return Expect{Out: Outcome{Class: "not-found"}}
	}
	// everything else: "rejected" (error or documented panic); which class is
	// C16/C09's subject, not compared here.
	return Expect{AnyFail: true, MayAccept: badMayAccept(cmd.Bad)}
}

// badMayAccept: whether the request is rejected at all is the strictness of
// the expression front end and of the usage restrictions (C09, C16 - not
// claimed). What C08 fixes is only what happens when it IS rejected.
func badMayAccept(kind string) bool {
	switch kind {
	case "key-missing", "key-type":
		return false
	}
	return true
}
