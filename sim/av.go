package sim

import (
	"encoding/hex"
	"math/big"
	"sort"
	"strings"
)

// AV is the harness's own attribute value: a tagged tree that shares nothing
// with either SDK or with minidyn's types.Item.
type AV struct {
	T    string        `json:"t"`              // S N B BOOL NULL L M SS NS BS
	S    string        `json:"s,omitempty"`    // S text or N numeral
	B    []byte        `json:"b,omitempty"`    // B
	Bool bool          `json:"bool,omitempty"` // BOOL
	L    []AV          `json:"l,omitempty"`
	M    map[string]AV `json:"m,omitempty"`
	SS   []string      `json:"ss,omitempty"` // SS members or NS numerals
	BS   [][]byte      `json:"bs,omitempty"`
}

// Item is an attribute map.
type Item map[string]AV

func S(s string) AV          { return AV{T: "S", S: s} }
func N(s string) AV          { return AV{T: "N", S: s} }
func Bin(b ...byte) AV       { return AV{T: "B", B: append([]byte{}, b...)} }
func Bool(b bool) AV         { return AV{T: "BOOL", Bool: b} }
func Null() AV               { return AV{T: "NULL"} }
func List(l ...AV) AV        { return AV{T: "L", L: l} }
func Map(m map[string]AV) AV { return AV{T: "M", M: m} }
func SSet(s ...string) AV    { return AV{T: "SS", SS: s} }
func NSet(s ...string) AV    { return AV{T: "NS", SS: s} }
func BSet(b ...[]byte) AV    { return AV{T: "BS", BS: b} }

// NumCanon renders a numeral by exact decimal value.
func NumCanon(s string) string {
	r, ok := new(big.Rat).SetString(s)
	if !ok {
		return "?" + s
	}
	out := r.FloatString(40)
	if strings.Contains(out, ".") {
		out = strings.TrimRight(out, "0")
		out = strings.TrimSuffix(out, ".")
	}
	if out == "-0" {
		out = "0"
	}
	return out
}

// NumCmp compares two numerals by value.
func NumCmp(a, b string) int {
	ra, ok1 := new(big.Rat).SetString(a)
	rb, ok2 := new(big.Rat).SetString(b)
	if !ok1 || !ok2 {
		return strings.Compare(a, b)
	}
	return ra.Cmp(rb)
}

// Canon is the structural identity of a value: sets as sets, numbers by value.
func (v AV) Canon() string {
	var sb strings.Builder
	v.canon(&sb)
	return sb.String()
}

func (v AV) canon(sb *strings.Builder) {
	sb.WriteString(v.T)
	sb.WriteByte(':')
	switch v.T {
	case "S":
		sb.WriteString(quote(v.S))
	case "N":
		sb.WriteString(NumCanon(v.S))
	case "B":
		sb.WriteString(hex.EncodeToString(v.B))
	case "BOOL":
		if v.Bool {
			sb.WriteString("t")
		} else {
			sb.WriteString("f")
		}
	case "NULL":
		if v.Bool {
			sb.WriteString("false") // NULL:false, not a valid value: kept distinguishable
		}
	case "L":
		sb.WriteByte('[')
		for i, e := range v.L {
			if i > 0 {
				sb.WriteByte(',')
			}
			e.canon(sb)
		}
		sb.WriteByte(']')
	case "M":
		sb.WriteByte('{')
		keys := make([]string, 0, len(v.M))
		for k := range v.M {
			keys = append(keys, k)
		}
		sort.Strings(keys)
		for i, k := range keys {
			if i > 0 {
				sb.WriteByte(',')
			}
			sb.WriteString(quote(k))
			sb.WriteByte('=')
			v.M[k].canon(sb)
		}
		sb.WriteByte('}')
	case "SS":
		m := append([]string{}, v.SS...)
		sort.Strings(m)
		m = dedup(m)
		sb.WriteByte('(')
		for i, e := range m {
			if i > 0 {
				sb.WriteByte(',')
			}
			sb.WriteString(quote(e))
		}
		sb.WriteByte(')')
	case "NS":
		m := make([]string, len(v.SS))
		for i, e := range v.SS {
			m[i] = NumCanon(e)
		}
		sort.Strings(m)
		m = dedup(m)
		sb.WriteByte('(')
		sb.WriteString(strings.Join(m, ","))
		sb.WriteByte(')')
	case "BS":
		m := make([]string, len(v.BS))
		for i, e := range v.BS {
			m[i] = hex.EncodeToString(e)
		}
		sort.Strings(m)
		m = dedup(m)
		sb.WriteByte('(')
		sb.WriteString(strings.Join(m, ","))
		sb.WriteByte(')')
	}
}

func dedup(s []string) []string {
	out := s[:0]
	for i, e := range s {
		if i == 0 || e != s[i-1] {
			out = append(out, e)
		}
	}
	return out
}

func quote(s string) string {
	var sb strings.Builder
	sb.WriteByte('"')
	for i := 0; i < len(s); i++ {
		c := s[i]
		if c < 0x20 || c > 0x7e || c == '"' || c == '\\' {
			sb.WriteString("\\x")
			sb.WriteString(hex.EncodeToString([]byte{c}))
		} else {
			sb.WriteByte(c)
		}
	}
	sb.WriteByte('"')
	return sb.String()
}

// Canon of an item: attributes sorted by name.
func (it Item) Canon() string {
	if it == nil {
		return "<none>"
	}
	keys := make([]string, 0, len(it))
	for k := range it {
		keys = append(keys, k)
	}
	sort.Strings(keys)
	var sb strings.Builder
	sb.WriteByte('{')
	for i, k := range keys {
		if i > 0 {
			sb.WriteByte(' ')
		}
		sb.WriteString(k)
		sb.WriteByte('=')
		it[k].canon(&sb)
	}
	sb.WriteByte('}')
	return sb.String()
}

// Clone deep-copies a value.
func (v AV) Clone() AV {
	c := v
	if v.B != nil {
		c.B = append([]byte{}, v.B...)
	}
	if v.L != nil {
		c.L = make([]AV, len(v.L))
		for i, e := range v.L {
			c.L[i] = e.Clone()
		}
	}
	if v.M != nil {
		c.M = make(map[string]AV, len(v.M))
		for k, e := range v.M {
			c.M[k] = e.Clone()
		}
	}
	if v.SS != nil {
		c.SS = append([]string{}, v.SS...)
	}
	if v.BS != nil {
		c.BS = make([][]byte, len(v.BS))
		for i, e := range v.BS {
			c.BS[i] = append([]byte{}, e...)
		}
	}
	return c
}

// Clone deep-copies an item (nil stays nil).
func (it Item) Clone() Item {
	if it == nil {
		return nil
	}
	c := make(Item, len(it))
	for k, v := range it {
		c[k] = v.Clone()
	}
	return c
}

// Equal by canonical form.
func (v AV) Equal(o AV) bool { return v.Canon() == o.Canon() }

// CmpScalar orders two scalars of the same type (S, N or B); ok=false if the
// types differ or are not ordered.
func CmpScalar(a, b AV) (int, bool) {
	if a.T != b.T {
		return 0, false
	}
	switch a.T {
	case "S":
		return strings.Compare(a.S, b.S), true
	case "N":
		return NumCmp(a.S, b.S), true
	case "B":
		return strings.Compare(string(a.B), string(b.B)), true
	}
	return 0, false
}

func sortedKeys[V any](m map[string]V) []string {
	keys := make([]string, 0, len(m))
	for k := range m {
		keys = append(keys, k)
	}
	sort.Strings(keys)
	return keys
}
