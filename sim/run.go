package sim

import (
	"encoding/json"
	"fmt"
	"os"
	"sort"
	"strings"

	"github.com/truora/minidyn/simrt"
)

// Plan is a replayable run: world, configuration and the list of commands.
type Plan struct {
	Property string `json:"property"`
	Seed     uint64 `json:"seed"`
	World    *World `json:"world"`
	Twin     string `json:"twin,omitempty"`
	Retain   bool   `json:"retain,omitempty"`
	MapOrder int    `json:"map_order"`
	MapSeed  uint64 `json:"map_seed"`
	Cmds     []*Cmd `json:"plan"`
	// concurrent runs (C11): Cmds is the sequential set-up, Tasks the command
	// lists of the concurrent callers, Sched the (seeded) scheduler
	Tasks [][]*Cmd  `json:"tasks,omitempty"`
	Sched *SchedCfg `json:"schedule,omitempty"`
}

// Replay is the file written for a violation (DESIGN.md appendix D).
type Replay struct {
	Plan
	Rule          string   `json:"rule"`
	Tier          string   `json:"tier"`
	Violation     []Fail   `json:"violation"`
	FailStep      int      `json:"fail_step"`
	Trace         []string `json:"trace"`
	EventLogSHA   string   `json:"event_log_sha256"`
	MinimisedFrom int      `json:"minimised_from_commands"`
	Known         string   `json:"known_finding,omitempty"`
}

// ExecPlan runs a fixed plan with no PRNG at all.
func ExecPlan(p *Plan) (*RunResult, *Engine) {
	simrt.BeginRun(p.MapSeed, p.MapOrder)
	defer simrt.EndRun()
	e := NewEngine(p.Property, p.World, p.Twin, p.Retain)
	e.Obs.R = NewRng(Mix(p.Seed, 0x0b5))
	maxID := 0
	for _, c := range p.Cmds {
		if c.ID > maxID {
			maxID = c.ID
		}
	}
	for i, c := range p.Cmds {
		if e.stop {
			break
		}
		e.Exec(i, c.clone())
	}
	if !e.stop {
		next := maxID + 1
		e.FinishWalks(len(p.Cmds), func() int { next++; return next - 1 })
	}
	return e.Finish(), e
}

// Generate runs one seeded run: commands are drawn adaptively from the model
// state and recorded as a plan.
func Generate(prof *Profile, seed uint64) (*Plan, *RunResult, *Gen) {
	if prof.BigTables && (Tier == "thorough" && splitmix64(seed^0xb16)%20 == 0 || Tier != "thorough" && splitmix64(seed^0xb16)%200 == 0) {
		// 5 % of the runs of the thorough tier, 0.5 % of the quick tier: one table
		// loaded with more than 64 items before the usual mix, half of the time
		// emptied again to a handful (size thresholds inside the library)
		big := *prof
		big.Big = true
		if big.MinIdx < 1 {
			big.MinIdx = 1
		}
		prof = &big
	}
	g := NewGen(seed, prof)
	twin := twinMode(prof.Prop)
	if twin != "" {
		g.twinWorld(twin)
	}
	p := &Plan{Property: prof.Prop, Seed: seed, World: g.W, Twin: twin, Retain: prof.Retain, MapOrder: g.Cfg.MapOrder, MapSeed: Mix(seed, 77)}
	simrt.BeginRun(p.MapSeed, p.MapOrder)
	defer simrt.EndRun()
	e := NewEngine(prof.Prop, g.W, twin, prof.Retain)
	e.Obs.R = NewRng(Mix(seed, 0x0b5))
	step := 0
	for _, c := range g.Setup() {
		if twin != "" && c.C%2 != 0 {
			continue
		}
		p.Cmds = append(p.Cmds, c)
		e.Exec(step, c.clone())
		g.cmds = append(g.cmds, c)
		step++
		if e.stop {
			break
		}
	}
	for i := 0; i < g.Cfg.Steps && !e.stop; i++ {
		c := g.Next(e.M, e)
		if twin != "" {
			c.C -= c.C % 2
		}
		p.Cmds = append(p.Cmds, c)
		e.Exec(step, c.clone())
		g.cmds = append(g.cmds, c)
		step++
	}
	if !e.stop {
		e.FinishWalks(step, g.id)
	}
	return p, e.Finish(), g
}

func twinMode(prop string) string {
	switch prop {
	case "C17":
		return "sdk"
	case "C19":
		return "decompose"
	}
	return ""
}

// twinWorld doubles every client: c+1 mirrors c.
func (g *Gen) twinWorld(mode string) {
	var sdks []string
	for _, s := range g.W.SDKs {
		if mode == "sdk" {
			sdks = append(sdks, "v1", "v2")
		} else {
			sdks = append(sdks, s, s)
		}
	}
	g.W.SDKs = sdks
}

func sameFailure(a, b *RunResult, rule string) bool {
	if len(b.Fails) == 0 {
		return false
	}
	for _, f := range b.Fails {
		if f.Rule == rule {
			return true
		}
	}
	return false
}

// Minimise shrinks a failing plan with delta debugging while the same rule of
// the same property still fails: drop chunks of commands, then single
// commands, then simplify the map order.
//
// keep (optional) is an extra predicate a candidate must satisfy: the runner
// uses it to keep the classification against the known-findings list
// unchanged, so that shrinking a new violation cannot slide into a listed
// finding that happens to fail the same rule (and be suppressed as known).
func Minimise(p *Plan, rule string, budget int, keep func(*Plan, *RunResult) bool) (*Plan, int) {
	cur := clonePlan(p)
	runs := 0
	try := func(cand *Plan) bool {
		runs++
		r, _ := ExecPlan(cand)
		return sameFailure(nil, r, rule) && (keep == nil || keep(cand, r))
	}
	// truncate after the failing step
	if r, _ := ExecPlan(cur); len(r.Fails) > 0 && r.FailStep+1 < len(cur.Cmds) {
		cand := clonePlan(cur)
		cand.Cmds = cand.Cmds[:r.FailStep+1]
		if try(cand) {
			cur = cand
		}
	}
	n := 2
	for len(cur.Cmds) >= 2 && runs < budget {
		chunk := (len(cur.Cmds) + n - 1) / n
		reduced := false
		for start := 0; start < len(cur.Cmds) && runs < budget; start += chunk {
			end := start + chunk
			if end > len(cur.Cmds) {
				end = len(cur.Cmds)
			}
			cand := clonePlan(cur)
			cand.Cmds = append(append([]*Cmd{}, cur.Cmds[:start]...), cur.Cmds[end:]...)
			if len(cand.Cmds) > 0 && try(cand) {
				cur = cand
				n = max(n-1, 2)
				reduced = true
				break
			}
		}
		if !reduced {
			if chunk == 1 {
				break
			}
			n = min(n*2, len(cur.Cmds))
		}
	}
	// simplest map order
	if cur.MapOrder != simrt.OrderSorted && runs < budget {
		cand := clonePlan(cur)
		cand.MapOrder = simrt.OrderSorted
		if try(cand) {
			cur = cand
		}
	}
	// drop clients / tables that no command uses
	cur = pruneWorld(cur, try)
	// simplify items: drop attributes of puts one at a time
	for i := 0; i < len(cur.Cmds) && runs < budget; i++ {
		c := cur.Cmds[i]
		if c.Op != "Put" || c.Item == nil {
			continue
		}
		for _, a := range sortedKeys(c.Item) {
			if runs >= budget {
				break
			}
			cand := clonePlan(cur)
			delete(cand.Cmds[i].Item, a)
			if try(cand) {
				cur = cand
			}
		}
	}
	return cur, runs
}

func max(a, b int) int {
	if a > b {
		return a
	}
	return b
}

func clonePlan(p *Plan) *Plan {
	b, _ := json.Marshal(p)
	var n Plan
	_ = json.Unmarshal(b, &n)
	return &n
}

func pruneWorld(p *Plan, try func(*Plan) bool) *Plan {
	used := map[string]bool{}
	for _, c := range p.Cmds {
		for t := range touchedTables(c) {
			used[t] = true
		}
	}
	cand := clonePlan(p)
	var keep []TableUni
	for _, u := range cand.World.Tables {
		if used[u.Name] {
			keep = append(keep, u)
		}
	}
	if len(keep) > 0 && len(keep) < len(cand.World.Tables) {
		cand.World.Tables = keep
		if try(cand) {
			p = cand
		}
	}
	// trailing clients nobody addresses
	maxC := 0
	for _, c := range p.Cmds {
		if c.C > maxC {
			maxC = c.C
		}
	}
	need := maxC + 1
	if p.Twin != "" && need%2 == 1 {
		need++
	}
	if need < len(p.World.SDKs) {
		cand := clonePlan(p)
		cand.World.SDKs = cand.World.SDKs[:need]
		if try(cand) {
			p = cand
		}
	}
	return p
}

// Trace renders the executed steps for humans.
func Trace(r *RunResult) []string {
	var out []string
	for i, s := range r.Steps {
		line := fmt.Sprintf("%02d %s", i, s.Cmd.String())
		if s.Twin {
			line += "   (twin)"
		}
		if s.Skipped {
			line += "   => skipped"
		} else {
			line += "   => " + outcomeLine(s.Out)
		}
		if s.Note != "" {
			line += "   [" + s.Note + "]"
		}
		out = append(out, line)
		for _, f := range s.Fails {
			out = append(out, "      FAIL "+f.Rule+": "+f.Msg)
		}
	}
	return out
}

// WriteReplay writes the replay file of a violation and returns its path.
func WriteReplay(dir string, p *Plan, r *RunResult, tier string, from int, known string, n int) (string, error) {
	return WriteReplayTrace(dir, p, r, Trace(r), tier, from, known, n)
}

// WriteReplayTrace is WriteReplay with a caller-supplied trace.
func WriteReplayTrace(dir string, p *Plan, r *RunResult, trace []string, tier string, from int, known string, n int) (string, error) {
	rules := map[string]bool{}
	for _, f := range r.Fails {
		rules[f.Rule] = true
	}
	rp := &Replay{Plan: *p, Rule: strings.Join(sortedKeys(rules), ","), Tier: tier, Violation: r.Fails, FailStep: r.FailStep,
		Trace: trace, EventLogSHA: r.LogHash, MinimisedFrom: from, Known: known}
	if err := os.MkdirAll(dir, 0o755); err != nil {
		return "", err
	}
	path := fmt.Sprintf("%s/%s-%d-%d.json", dir, p.Property, p.Seed, n)
	b, err := json.MarshalIndent(rp, "", " ")
	if err != nil {
		return "", err
	}
	return path, os.WriteFile(path, b, 0o644)
}

// ReadReplay loads a replay file.
func ReadReplay(path string) (*Replay, error) {
	b, err := os.ReadFile(path)
	if err != nil {
		return nil, err
	}
	var rp Replay
	if err := json.Unmarshal(b, &rp); err != nil {
		return nil, err
	}
	return &rp, nil
}

// FailRules lists the distinct rules of a result's failures.
func FailRules(r *RunResult) []string {
	m := map[string]bool{}
	for _, f := range r.Fails {
		m[f.Rule] = true
	}
	out := sortedKeys(m)
	sort.Strings(out)
	return out
}
