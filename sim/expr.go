package sim

import (
	"fmt"
	"sort"
	"strings"
)

// PathElem is one step below a top-level attribute: a map member or a list position.
type PathElem struct {
	Key string `json:"k,omitempty"`
	Idx int    `json:"i,omitempty"`
	IsI bool   `json:"isi,omitempty"`
}

// Path is a document path. Alias: render the top-level name as a #placeholder.
type Path struct {
	Attr  string     `json:"attr"`
	Alias bool       `json:"alias,omitempty"`
	Sub   []PathElem `json:"sub,omitempty"`
}

func P(attr string) Path { return Path{Attr: attr} }

// Expr is a condition / filter / key-condition tree over the workload fragment
// (DESIGN.md appendix A).
type Expr struct {
	Op    string  `json:"op"` // = <> < <= > >= exists not_exists begins contains between in and or not
	Path  *Path   `json:"path,omitempty"`
	Vals  []AV    `json:"vals,omitempty"`
	RP    []*Path `json:"rp,omitempty"` // operand i is the attribute RP[i] instead of the value Vals[i] (when non-nil)
	Args  []*Expr `json:"args,omitempty"`
	Paren bool    `json:"paren,omitempty"`
}

// Binder collects the placeholder maps while rendering.
type Binder struct {
	Names  map[string]string
	Values Item
	nv     int
}

func NewBinder() *Binder { return &Binder{Names: map[string]string{}, Values: Item{}} }

func (b *Binder) val(v AV) string {
	// :v0 .. :v9, then :w0 .. (the library's "unused placeholder" test is
	// substring based, so no placeholder may be a prefix of another)
	name := fmt.Sprintf(":%c%d", 'v'+byte(b.nv/10), b.nv%10)
	b.nv++
	b.Values[name] = v
	return name
}

func (b *Binder) path(p Path) string {
	var sb strings.Builder
	if p.Alias || strings.Contains(p.Attr, ".") {
		// (a name with a dot in it can only be written through a placeholder)
		// one alias per distinct attribute
		name := ""
		for k, v := range b.Names {
			if v == p.Attr {
				name = k
			}
		}
		if name == "" {
			name = fmt.Sprintf("#n%d", len(b.Names))
			b.Names[name] = p.Attr
		}
		sb.WriteString(name)
	} else {
		sb.WriteString(p.Attr)
	}
	for _, e := range p.Sub {
		if e.IsI {
			fmt.Fprintf(&sb, "[%d]", e.Idx)
		} else {
			sb.WriteByte('.')
			sb.WriteString(e.Key)
		}
	}
	return sb.String()
}

// Render produces DynamoDB expression text.
func (e *Expr) Render(b *Binder) string {
	s := e.render(b)
	if e.Paren {
		return "(" + s + ")"
	}
	return s
}

// operand renders right-hand operand i: a value placeholder or an attribute path.
func (e *Expr) operand(b *Binder, i int) string {
	if i < len(e.RP) && e.RP[i] != nil {
		return b.path(*e.RP[i])
	}
	return b.val(e.Vals[i])
}

// operandValue resolves right-hand operand i on an item.
func (e *Expr) operandValue(it Item, i int) (AV, bool) {
	if i < len(e.RP) && e.RP[i] != nil {
		return Lookup(it, *e.RP[i])
	}
	return e.Vals[i], true
}

func (e *Expr) render(b *Binder) string {
	switch e.Op {
	case "=", "<>", "<", "<=", ">", ">=":
		return b.path(*e.Path) + " " + e.Op + " " + e.operand(b, 0)
	case "exists":
		return "attribute_exists(" + b.path(*e.Path) + ")"
	case "not_exists":
		return "attribute_not_exists(" + b.path(*e.Path) + ")"
	case "begins":
		return "begins_with(" + b.path(*e.Path) + ", " + b.val(e.Vals[0]) + ")"
	case "contains":
		return "contains(" + b.path(*e.Path) + ", " + b.val(e.Vals[0]) + ")"
	case "type":
		return "attribute_type(" + b.path(*e.Path) + ", " + b.val(e.Vals[0]) + ")"
	case "size=", "size<>", "size<", "size<=", "size>", "size>=":
		return "size(" + b.path(*e.Path) + ") " + strings.TrimPrefix(e.Op, "size") + " " + b.val(e.Vals[0])
	case "between":
		return b.path(*e.Path) + " BETWEEN " + e.operand(b, 0) + " AND " + e.operand(b, 1)
	case "in":
		parts := make([]string, len(e.Vals))
		for i := range e.Vals {
			parts[i] = e.operand(b, i)
		}
		return b.path(*e.Path) + " IN (" + strings.Join(parts, ", ") + ")"
	case "and":
		return e.Args[0].Render(b) + " AND " + e.Args[1].Render(b)
	case "or":
		return e.Args[0].Render(b) + " OR " + e.Args[1].Render(b)
	case "not":
		return "NOT " + e.Args[0].Render(b)
	}
	panic("render: unknown op " + e.Op)
}

// Lookup resolves a path in an item.
func Lookup(it Item, p Path) (AV, bool) {
	v, ok := it[p.Attr]
	if !ok {
		return AV{}, false
	}
	for _, e := range p.Sub {
		if e.IsI {
			if v.T != "L" || e.Idx < 0 || e.Idx >= len(v.L) {
				return AV{}, false
			}
			v = v.L[e.Idx]
		} else {
			if v.T != "M" {
				return AV{}, false
			}
			n, ok := v.M[e.Key]
			if !ok {
				return AV{}, false
			}
			v = n
		}
	}
	return v, true
}

// prec: comparison > NOT > AND > OR (DynamoDB). Used to evaluate an
// unparenthesised rendering the way DynamoDB parses it.
// The generator only emits trees whose rendering parses back to the same tree
// (children of lower precedence are parenthesised), so Eval is structural.

// Eval computes the truth value DynamoDB defines for the fragment.
func (e *Expr) Eval(it Item) bool {
	switch e.Op {
	case "and":
		return e.Args[0].Eval(it) && e.Args[1].Eval(it)
	case "or":
		return e.Args[0].Eval(it) || e.Args[1].Eval(it)
	case "not":
		return !e.Args[0].Eval(it)
	}
	v, ok := Lookup(it, *e.Path)
	switch e.Op {
	case "exists":
		return ok
	case "not_exists":
		return !ok
	case "type":
		return ok && v.T == e.Vals[0].S
	case "size=", "size<>", "size<", "size<=", "size>", "size>=":
		// only generated for targets that hold a string or a binary there
		n := len(v.S)
		if v.T == "B" {
			n = len(v.B)
		}
		c := NumCmp(fmt.Sprint(n), e.Vals[0].S)
		switch strings.TrimPrefix(e.Op, "size") {
		case "=":
			return ok && c == 0
		case "<>":
			return ok && c != 0
		case "<":
			return ok && c < 0
		case "<=":
			return ok && c <= 0
		case ">":
			return ok && c > 0
		}
		return ok && c >= 0
	}
	if !ok {
		return e.Op == "<>"
	}
	ops := make([]AV, len(e.Vals))
	for i := range e.Vals {
		o, ok := e.operandValue(it, i)
		if !ok {
			// an operand attribute that is absent: the comparison is false (<> true)
			return e.Op == "<>"
		}
		ops[i] = o
	}
	switch e.Op {
	case "=":
		return v.Equal(ops[0])
	case "<>":
		return !v.Equal(ops[0])
	case "<", "<=", ">", ">=":
		c, ok := CmpScalar(v, ops[0])
		if !ok {
			return false
		}
		switch e.Op {
		case "<":
			return c < 0
		case "<=":
			return c <= 0
		case ">":
			return c > 0
		}
		return c >= 0
	case "between":
		c1, ok1 := CmpScalar(v, ops[0])
		c2, ok2 := CmpScalar(v, ops[1])
		return ok1 && ok2 && c1 >= 0 && c2 <= 0
	case "in":
		for _, x := range ops {
			if v.Equal(x) {
				return true
			}
		}
		return false
	case "begins":
		x := e.Vals[0]
		if v.T == "S" && x.T == "S" {
			return strings.HasPrefix(v.S, x.S)
		}
		if v.T == "B" && x.T == "B" {
			return strings.HasPrefix(string(v.B), string(x.B))
		}
		return false
	case "contains":
		x := e.Vals[0]
		switch v.T {
		case "S":
			return x.T == "S" && strings.Contains(v.S, x.S)
		case "SS":
			if x.T != "S" {
				return false
			}
			for _, m := range v.SS {
				if m == x.S {
					return true
				}
			}
		case "NS":
			if x.T != "N" {
				return false
			}
			for _, m := range v.SS {
				if NumCmp(m, x.S) == 0 {
					return true
				}
			}
		case "L":
			for _, m := range v.L {
				if m.Equal(x) {
					return true
				}
			}
		}
		return false
	}
	panic("eval: unknown op " + e.Op)
}

// Attrs lists the top-level attributes an expression names.
func (e *Expr) Attrs(into map[string]bool) {
	if e == nil {
		return
	}
	if e.Path != nil {
		into[e.Path.Attr] = true
	}
	for _, p := range e.RP {
		if p != nil {
			into[p.Attr] = true
		}
	}
	for _, a := range e.Args {
		a.Attrs(into)
	}
}

func (e *Expr) String() string {
	if e == nil {
		return ""
	}
	b := NewBinder()
	s := e.Render(b)
	for _, k := range sortedKeys(b.Values) {
		s = strings.ReplaceAll(s, k, b.Values[k].Canon())
	}
	for _, k := range sortedKeys(b.Names) {
		s = strings.ReplaceAll(s, k, "#"+b.Names[k])
	}
	return s
}

// ---------------------------------------------------------------------------
// updates

// UpdAction is one action of an update expression.
type UpdAction struct {
	Kind string `json:"kind"` // SET REMOVE ADD DELETE
	Path Path   `json:"path"`
	// SET forms: val (= :v) plus (= src + :v) minus (= src - :v)
	// ine (= if_not_exists(src, :v2) + :v) append (= list_append(src, :v)) copy (= src)
	Form string `json:"form,omitempty"`
	Val  AV     `json:"val,omitempty"`
	Val2 AV     `json:"val2,omitempty"`
	Src  *Path  `json:"src,omitempty"`
}

// Update is a whole update expression.
type Update []UpdAction

// Render produces the update expression text.
func (u Update) Render(b *Binder) string {
	groups := map[string][]string{}
	for _, a := range u {
		var s string
		switch a.Kind {
		case "SET":
			lhs := b.path(a.Path)
			switch a.Form {
			case "val":
				s = lhs + " = " + b.val(a.Val)
			case "plus":
				s = lhs + " = " + b.path(*a.Src) + " + " + b.val(a.Val)
			case "minus":
				s = lhs + " = " + b.path(*a.Src) + " - " + b.val(a.Val)
			case "ine":
				s = lhs + " = if_not_exists(" + b.path(*a.Src) + ", " + b.val(a.Val2) + ") + " + b.val(a.Val)
			case "append":
				s = lhs + " = list_append(" + b.path(*a.Src) + ", " + b.val(a.Val) + ")"
			case "copy":
				s = lhs + " = " + b.path(*a.Src)
			default:
				panic("render: unknown SET form " + a.Form)
			}
		case "REMOVE":
			s = b.path(a.Path)
		case "ADD", "DELETE":
			s = b.path(a.Path) + " " + b.val(a.Val)
		}
		groups[a.Kind] = append(groups[a.Kind], s)
	}
	var parts []string
	for _, k := range []string{"SET", "REMOVE", "ADD", "DELETE"} {
		if len(groups[k]) > 0 {
			parts = append(parts, k+" "+strings.Join(groups[k], ", "))
		}
	}
	return strings.Join(parts, " ")
}

func (u Update) String() string {
	b := NewBinder()
	s := u.Render(b)
	for _, k := range sortedKeys(b.Values) {
		s = strings.ReplaceAll(s, k, b.Values[k].Canon())
	}
	for _, k := range sortedKeys(b.Names) {
		s = strings.ReplaceAll(s, k, "#"+b.Names[k])
	}
	return s
}

// Targets lists the top-level attributes the update writes.
func (u Update) Targets() []string {
	m := map[string]bool{}
	for _, a := range u {
		m[a.Path.Attr] = true
	}
	return sortedKeys(m)
}

func numAdd(a, b string, neg bool) string {
	ra, _ := newRat(a)
	rb, _ := newRat(b)
	if neg {
		ra.Sub(ra, rb)
	} else {
		ra.Add(ra, rb)
	}
	return NumCanon(ra.FloatString(40))
}

// setPath writes v at p inside it (copy-on-write on the touched spine).
func setPath(it Item, p Path, v AV) error {
	if len(p.Sub) == 0 {
		it[p.Attr] = v
		return nil
	}
	top, ok := it[p.Attr]
	if !ok {
		return fmt.Errorf("path %s: parent missing", p.Attr)
	}
	nv, err := setIn(top.Clone(), p.Sub, v)
	if err != nil {
		return err
	}
	it[p.Attr] = nv
	return nil
}

func setIn(cur AV, sub []PathElem, v AV) (AV, error) {
	e := sub[0]
	if e.IsI {
		if cur.T != "L" || e.Idx < 0 || e.Idx >= len(cur.L) {
			return cur, fmt.Errorf("list position outside the fragment")
		}
		if len(sub) == 1 {
			cur.L[e.Idx] = v
			return cur, nil
		}
		n, err := setIn(cur.L[e.Idx], sub[1:], v)
		cur.L[e.Idx] = n
		return cur, err
	}
	if cur.T != "M" {
		return cur, fmt.Errorf("not a map")
	}
	if len(sub) == 1 {
		cur.M[e.Key] = v
		return cur, nil
	}
	ch, ok := cur.M[e.Key]
	if !ok {
		return cur, fmt.Errorf("parent missing")
	}
	n, err := setIn(ch, sub[1:], v)
	cur.M[e.Key] = n
	return cur, err
}

func removePath(it Item, p Path) {
	if len(p.Sub) == 0 {
		delete(it, p.Attr)
		return
	}
	top, ok := it[p.Attr]
	if !ok {
		return
	}
	it[p.Attr] = removeIn(top.Clone(), p.Sub)
}

func removeIn(cur AV, sub []PathElem) AV {
	e := sub[0]
	if e.IsI {
		if cur.T != "L" || e.Idx < 0 || e.Idx >= len(cur.L) {
			return cur
		}
		if len(sub) == 1 {
			cur.L = append(cur.L[:e.Idx:e.Idx], cur.L[e.Idx+1:]...)
			return cur
		}
		cur.L[e.Idx] = removeIn(cur.L[e.Idx], sub[1:])
		return cur
	}
	if cur.T != "M" {
		return cur
	}
	if len(sub) == 1 {
		delete(cur.M, e.Key)
		return cur
	}
	if ch, ok := cur.M[e.Key]; ok {
		cur.M[e.Key] = removeIn(ch, sub[1:])
	}
	return cur
}

// Apply computes the item after the update per DynamoDB semantics: every
// right-hand side reads the pre-update item. It returns an error when the
// update is a validation error (operand of the wrong type, missing operand).
func (u Update) Apply(old Item) (Item, error) {
	it := old.Clone()
	if it == nil {
		it = Item{}
	}
	// REMOVE of list elements must use pre-update positions: apply removals
	// of one list in descending position order.
	acts := append(Update{}, u...)
	sort.SliceStable(acts, func(i, j int) bool {
		a, b := acts[i], acts[j]
		if a.Kind == "REMOVE" && b.Kind == "REMOVE" && a.Path.Attr == b.Path.Attr && len(a.Path.Sub) == 1 && len(b.Path.Sub) == 1 && a.Path.Sub[0].IsI && b.Path.Sub[0].IsI {
			return a.Path.Sub[0].Idx > b.Path.Sub[0].Idx
		}
		return false
	})
	for _, a := range acts {
		switch a.Kind {
		case "SET":
			var v AV
			switch a.Form {
			case "val":
				v = a.Val.Clone()
			case "copy":
				s, ok := Lookup(old, *a.Src)
				if !ok {
					return nil, fmt.Errorf("SET: source path missing")
				}
				v = s.Clone()
			case "plus", "minus":
				s, ok := Lookup(old, *a.Src)
				if !ok || s.T != "N" || a.Val.T != "N" {
					return nil, fmt.Errorf("SET arithmetic: operand missing or not a number")
				}
				v = N(numAdd(s.S, a.Val.S, a.Form == "minus"))
			case "ine":
				s, ok := Lookup(old, *a.Src)
				if !ok {
					s = a.Val2
				}
				if s.T != "N" || a.Val.T != "N" {
					return nil, fmt.Errorf("SET arithmetic: operand not a number")
				}
				v = N(numAdd(s.S, a.Val.S, false))
			case "append":
				s, ok := Lookup(old, *a.Src)
				if !ok || s.T != "L" || a.Val.T != "L" {
					return nil, fmt.Errorf("list_append: operand missing or not a list")
				}
				c := s.Clone()
				c.L = append(c.L, a.Val.Clone().L...)
				v = c
			}
			if err := setPath(it, a.Path, v); err != nil {
				return nil, err
			}
		case "REMOVE":
			removePath(it, a.Path)
		case "ADD":
			cur, ok := it[a.Path.Attr]
			switch {
			case !ok:
				it[a.Path.Attr] = a.Val.Clone()
			case cur.T == "N" && a.Val.T == "N":
				old0, _ := Lookup(old, a.Path)
				it[a.Path.Attr] = N(numAdd(old0.S, a.Val.S, false))
			case (cur.T == "SS" || cur.T == "NS") && cur.T == a.Val.T:
				c := cur.Clone()
				for _, m := range a.Val.SS {
					found := false
					for _, x := range c.SS {
						if (cur.T == "SS" && x == m) || (cur.T == "NS" && NumCmp(x, m) == 0) {
							found = true
						}
					}
					if !found {
						c.SS = append(c.SS, m)
					}
				}
				it[a.Path.Attr] = c
			default:
				return nil, fmt.Errorf("ADD: type mismatch")
			}
		case "DELETE":
			cur, ok := it[a.Path.Attr]
			if !ok {
				continue
			}
			if (cur.T != "SS" && cur.T != "NS") || cur.T != a.Val.T {
				return nil, fmt.Errorf("DELETE: type mismatch")
			}
			c := cur.Clone()
			var keep []string
			for _, x := range c.SS {
				del := false
				for _, m := range a.Val.SS {
					if (cur.T == "SS" && x == m) || (cur.T == "NS" && NumCmp(x, m) == 0) {
						del = true
					}
				}
				if !del {
					keep = append(keep, x)
				}
			}
			if len(keep) == 0 {
				delete(it, a.Path.Attr)
			} else {
				c.SS = keep
				it[a.Path.Attr] = c
			}
		}
	}
	return it, nil
}
