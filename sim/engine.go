package sim

import (
	"crypto/sha256"
	"encoding/hex"
	"fmt"
	"sort"
	"strings"

	"github.com/truora/minidyn/simrt"
)

// walkState is the oracle state of one paginated walk (C04).
type walkState struct {
	open       *Cmd
	pages      int
	items      []Item
	leks       map[string]bool
	lastLEK    Item
	done       bool
	full       Seq             // the implementation's own unpaginated answer at open
	startMatch map[string]bool // canon of the model's matching items at open
	touched    map[string]bool // key ids written on the table during the walk
	interfered bool
	wrecked    bool // table cleared / dropped / re-indexed during the walk: only C04.page and C04.live apply
	bound      int
}

// Step is one executed command with its outcome, for traces and replay files.
type Step struct {
	Cmd     *Cmd    `json:"cmd"`
	Twin    bool    `json:"twin,omitempty"`
	Out     Outcome `json:"out"`
	Skipped bool    `json:"skipped,omitempty"`
	Note    string  `json:"note,omitempty"`
	Fails   []Fail  `json:"fails,omitempty"`
}

// RunResult is the verdict of one run.
type RunResult struct {
	Fails      []Fail // failures of the checked property (first failing step only)
	FailStep   int
	FailCmd    *Cmd
	OtherRule  string   // run ended by another property's rule
	Soft       []string // rules of other properties broken by refused writes that were taken back (the run went on)
	OtherFails []Fail   `json:"-"`
	Quiet      string   // run ended without verdict
	Steps      []Step
	LogHash    string
	Probes     map[string]int
	Faults     map[string]int
	States     map[string]bool
	ObsCalls   int
	NSteps     int
}

// Engine executes a plan against the real library and the model.
type Engine struct {
	Prop      string
	W         *World
	M         *Model
	Drv       []Driver
	Obs       *Observer
	Twin      string // "" | "sdk" (C17) | "decompose" (C19)
	Retain    bool
	last      []ObsClient
	lastSig   []string
	walks     map[int]*walkState
	log       strings.Builder
	res       *RunResult
	stop      bool
	maxWalkID int
	deleted   map[string]bool
	dropped   map[string]bool
}

// NewEngine builds fresh clients for the world.
func NewEngine(prop string, w *World, twin string, retain bool) *Engine {
	e := &Engine{Prop: prop, W: w, Twin: twin, Retain: retain, walks: map[int]*walkState{}}
	e.M = NewModel(len(w.SDKs))
	for _, sdk := range w.SDKs {
		if sdk == "v1" {
			e.Drv = append(e.Drv, NewV1(retain))
		} else {
			e.Drv = append(e.Drv, NewV2(retain))
		}
	}
	e.Obs = &Observer{W: w}
	e.last = make([]ObsClient, len(w.SDKs))
	e.lastSig = make([]string, len(w.SDKs))
	e.res = &RunResult{Probes: map[string]int{}, Faults: map[string]int{}, States: map[string]bool{}}
	return e
}

func (e *Engine) logf(format string, a ...any) {
	fmt.Fprintf(&e.log, format, a...)
	e.log.WriteByte('\n')
}

func (e *Engine) probe(name string) { e.res.Probes[name]++ }
func (e *Engine) fault(name string) { e.res.Faults[name]++ }

// addFails routes rule failures: the checked property's stop the run as a
// violation, other properties' stop it as ended_by_other_property.
func (e *Engine) addFails(step int, cmd *Cmd, fails []Fail) {
	if len(fails) == 0 {
		return
	}
	var mine []Fail
	for _, f := range fails {
		if f.Prop() == e.Prop {
			mine = append(mine, f)
		}
	}
	if len(mine) > 0 {
		if e.res.Fails == nil {
			e.res.Fails, e.res.FailStep, e.res.FailCmd = mine, step, cmd
		}
		e.stop = true
		return
	}
	if e.res.OtherRule == "" {
		e.res.OtherRule = fails[0].Rule
		e.res.OtherFails = fails
	}
	e.stop = true
}

func (e *Engine) quiet(why string) {
	if e.res.Quiet == "" {
		e.res.Quiet = why
	}
	e.stop = true
}

// observeAll refreshes the observed state of every observable client and
// returns, per client, the previous signature.
func (e *Engine) observeAll() []string {
	prev := append([]string{}, e.lastSig...)
	for c, d := range e.Drv {
		if e.M.Clients[c].Fail != "none" {
			continue // reads fail by design; compared again after deactivation
		}
		e.last[c] = e.Obs.Observe(d, e.M.Clients[c])
		e.lastSig[c] = e.last[c].Signature()
	}
	return prev
}

func outcomeLine(o Outcome) string {
	var sb strings.Builder
	sb.WriteString(o.Class)
	if o.Item != nil {
		sb.WriteString(" item=" + o.Item.Canon())
	}
	if o.Items != nil {
		fmt.Fprintf(&sb, " items=%v count=%d", canonSeq(o.Items), o.Count)
	}
	if o.LEK != nil {
		sb.WriteString(" lek=" + o.LEK.Canon())
	}
	if o.HasCCF {
		sb.WriteString(" ccfitem=" + o.CCFItem.Canon())
	}
	if o.Desc != nil {
		fmt.Fprintf(&sb, " desc=%+v", *o.Desc)
	}
	if o.Unproc != nil {
		fmt.Fprintf(&sb, " unproc=%v", batchCanon(o.Unproc))
	}
	if o.Resp != nil {
		for _, t := range sortedKeys(o.Resp) {
			fmt.Fprintf(&sb, " resp[%s]=%v", t, canonSorted(o.Resp[t]))
		}
	}
	if len(o.UnprocKeys) > 0 {
		fmt.Fprintf(&sb, " unprockeys=%d", len(o.UnprocKeys))
	}
	return sb.String()
}

// touchedTables lists the tables a command addresses.
func touchedTables(cmd *Cmd) map[string]bool {
	t := map[string]bool{}
	if cmd.T != "" {
		t[cmd.T] = true
	}
	for _, r := range cmd.Batch {
		t[r.T] = true
	}
	for _, g := range cmd.Gets {
		t[g.T] = true
	}
	return t
}

func isWrite(op string) bool {
	switch op {
	case "Put", "Update", "Delete", "BatchWrite", "Clear", "Drop", "Create", "IndexCreate", "IndexDrop":
		return true
	}
	return false
}

// Exec runs one command of the plan (and its twin, in twin modes).
func (e *Engine) Exec(step int, cmd *Cmd) {
	e.exec1(step, cmd, false)
	if e.stop && e.Twin == "sdk" && cmd.C%2 == 0 && cmd.Op != "Poke" && len(e.res.Fails) == 0 && e.res.Quiet == "" && e.res.OtherRule != "" {
		// the first SDK's answer broke another property's rule: the twin still
		// gets the command, and a disagreement between the two is C17's
		first := e.res.Steps[len(e.res.Steps)-1]
		other := e.res.OtherRule
		e.stop, e.res.OtherRule = false, ""
		tw := cmd.clone()
		tw.C, tw.ID = cmd.C+1, -cmd.ID-1000000
		if tw.Op == "Open" || tw.Op == "Resume" {
			tw.Walk = cmd.Walk + 1000000
		}
		e.exec1(step, tw, true)
		second := e.res.Steps[len(e.res.Steps)-1]
		e.stop = true
		if len(e.res.Fails) == 0 {
			e.res.OtherRule = other
			if d := outcomeDiff(cmd, first.Out, second.Out); d != "" && !first.Skipped && !second.Skipped {
				e.res.OtherRule = ""
				e.res.Fails = []Fail{{"C17.eq", fmt.Sprintf("%s through %s and %s differ: %s", cmd.Op, e.W.SDKs[cmd.C], e.W.SDKs[cmd.C+1], d)}}
				e.res.FailStep, e.res.FailCmd = step, cmd
			}
		}
		return
	}
	if e.stop && e.Twin == "decompose" && cmd.C%2 == 0 && cmd.Op == "BatchWrite" && !batchMalformed(cmd) && len(e.res.Fails) == 0 && e.res.Quiet == "" && e.res.OtherRule != "" &&
		e.M.Clients[cmd.C].Fail == "none" && e.res.Steps[len(e.res.Steps)-1].Out.OK() {
		// the state a successful batch left behind broke another property's rule
		// against the model: the twin still performs the decomposition, and if the
		// two clients then show different states the batch did not equal its
		// item-by-item decomposition - C19's violation, reported as such. When
		// both sides are wrong in the same way the other rule stands.
		other, otherFails := e.res.OtherRule, e.res.OtherFails
		complete := true // every request of the decomposition went through on the twin
		for i, r := range cmd.Batch {
			s := &Cmd{ID: -cmd.ID - 1000000 - i - 1, C: cmd.C + 1, T: r.T, Actor: "twin"}
			if r.Put != nil {
				s.Op, s.Item = "Put", r.Put
			} else {
				s.Op, s.Key = "Delete", r.Del
			}
			// every step observes all clients, so the batch client's state keeps
			// tripping the other rule: that alone does not end the decomposition
			e.stop, e.res.OtherRule = false, ""
			e.exec1(step, s, true)
			if last := e.res.Steps[len(e.res.Steps)-1]; !last.Twin || last.Skipped || !last.Out.OK() || len(e.res.Fails) > 0 || e.res.Quiet != "" {
				complete = false
				break
			}
		}
		e.res.OtherFails = otherFails
		e.stop = true
		if len(e.res.Fails) == 0 {
			e.res.OtherRule = other
			if a, b := e.lastSig[cmd.C], e.lastSig[cmd.C+1]; complete && a != b {
				e.res.OtherRule = ""
				e.res.Fails = []Fail{{"C19.write", "observable states of the twin clients differ after " + cmd.Op + ": " + DiffSignatures(a, b)}}
				e.res.FailStep, e.res.FailCmd = step, cmd
			}
		}
		return
	}
	if e.stop || e.Twin == "" || cmd.Op == "Poke" {
		return
	}
	// twin worlds: client c+1 mirrors client c
	if cmd.C%2 != 0 {
		return
	}
	tw := cmd.clone()
	tw.C = cmd.C + 1
	tw.ID = -cmd.ID - 1000000 // distinct id space, stable under minimisation
	if tw.Op == "Open" || tw.Op == "Resume" {
		tw.Walk = cmd.Walk + 1000000
	}
	if e.Twin == "decompose" && cmd.Op == "BatchWrite" && !batchMalformed(cmd) {
		firstOut := e.res.Steps[len(e.res.Steps)-1].Out
		if firstOut.OK() {
			for i, r := range cmd.Batch {
				s := &Cmd{ID: tw.ID - i - 1, C: tw.C, T: r.T, Actor: "twin"}
				if r.Put != nil {
					s.Op, s.Item = "Put", r.Put
				} else {
					s.Op, s.Key = "Delete", r.Del
				}
				e.exec1(step, s, true)
				if e.stop {
					return
				}
			}
			e.compareTwins(step, cmd, "C19.write")
			return
		}
	}
	e.exec1(step, tw, true)
	if e.stop && e.Twin == "sdk" && len(e.res.Fails) == 0 && e.res.Quiet == "" && len(e.res.Steps) >= 2 {
		// the twin's answer broke another property's rule (each side is also
		// checked against the model): if the two SDKs also disagree with each
		// other, that is C17's violation and is reported as such
		a, b := e.res.Steps[len(e.res.Steps)-2], e.res.Steps[len(e.res.Steps)-1]
		if !a.Twin && b.Twin && !a.Skipped && !b.Skipped {
			if d := outcomeDiff(cmd, a.Out, b.Out); d != "" {
				e.res.OtherRule = ""
				e.res.Fails = []Fail{{"C17.eq", fmt.Sprintf("%s through %s and %s differ: %s", cmd.Op, e.W.SDKs[cmd.C], e.W.SDKs[cmd.C+1], d)}}
				e.res.FailStep, e.res.FailCmd = step, cmd
			}
		}
	}
	if e.stop {
		return
	}
	if e.Twin == "sdk" {
		a, b := e.res.Steps[len(e.res.Steps)-2].Out, e.res.Steps[len(e.res.Steps)-1].Out
		if d := outcomeDiff(cmd, a, b); d != "" {
			e.addFails(step, cmd, []Fail{{"C17.eq", fmt.Sprintf("%s through %s and %s differ: %s", cmd.Op, e.W.SDKs[cmd.C], e.W.SDKs[cmd.C+1], d)}})
			return
		}
		e.compareTwins(step, cmd, "C17.eq")
	} else {
		e.compareTwins(step, cmd, "C19.write")
	}
}

func (e *Engine) compareTwins(step int, cmd *Cmd, rule string) {
	a, b := e.lastSig[cmd.C], e.lastSig[cmd.C+1]
	if e.M.Clients[cmd.C].Fail != "none" {
		return
	}
	if a != b {
		e.addFails(step, cmd, []Fail{{rule, "observable states of the twin clients differ after " + cmd.Op + ": " + DiffSignatures(a, b)}})
	}
}

// outcomeDiff compares the normalised outcomes of the same command on two SDKs.
func outcomeDiff(cmd *Cmd, a, b Outcome) string {
	if cmd.Op == "Bad" && (a.Class == "internal-server" || a.Class == "forced" || b.Class == "internal-server" || b.Class == "forced" || cmd.Bad == "key-missing" || cmd.Bad == "key-type") {
		// a malformed request while a failure is emulated, or a malformed key
		// (possibly on a missing table): the SDK v1 request validators run
		// before the client is entered, so which of two errors wins differs
		// legitimately ("requests both SDKs accept as
		// well-formed" is the scope): only rejected-versus-accepted is compared
		if a.OK() != b.OK() {
			return fmt.Sprintf("class %s vs %s", a.Class, b.Class)
		}
		return ""
	}
	if a.Class != b.Class {
		return fmt.Sprintf("class %s vs %s", a.Class, b.Class)
	}
	if !itemsEq(a.Item, b.Item) {
		return fmt.Sprintf("item %s vs %s", a.Item.Canon(), b.Item.Canon())
	}
	if cmd.Op == "Query" || cmd.Op == "Open" || cmd.Op == "Resume" || cmd.Op == "Scan" {
		if x, y := canonSeq(a.Items), canonSeq(b.Items); !sameStrings(x, y) {
			return fmt.Sprintf("items %s vs %s", brief(x), brief(y))
		}
		if a.Count != b.Count {
			return fmt.Sprintf("count %d vs %d", a.Count, b.Count)
		}
		if (a.LEK == nil) != (b.LEK == nil) || !itemsEq(a.LEK, b.LEK) {
			return fmt.Sprintf("pagination key %s vs %s", a.LEK.Canon(), b.LEK.Canon())
		}
	}
	if a.HasCCF != b.HasCCF || !itemsEq(a.CCFItem, b.CCFItem) {
		// the SDK v1 request type has no ReturnValuesOnConditionCheckFailure: not expressible, not compared
		_ = a
	}
	if (a.Desc == nil) != (b.Desc == nil) {
		return "table description present vs absent"
	}
	if a.Desc != nil {
		if a.Desc.Keys != b.Desc.Keys || fmt.Sprint(a.Desc.Indexes) != fmt.Sprint(b.Desc.Indexes) || a.Desc.ItemCount != b.Desc.ItemCount {
			return fmt.Sprintf("description %+v vs %+v", *a.Desc, *b.Desc)
		}
		for n, ca := range a.Desc.IdxCount {
			// compared where both SDK outputs carry a count
			if cb, ok := b.Desc.IdxCount[n]; ok && ca >= 0 && cb >= 0 && ca != cb {
				return fmt.Sprintf("index %s ItemCount %d vs %d", n, ca, cb)
			}
		}
	}
	if x, y := batchCanon(a.Unproc), batchCanon(b.Unproc); !sameStrings(x, y) {
		return fmt.Sprintf("unprocessed %v vs %v", x, y)
	}
	for _, t := range sortedKeys(a.Resp) {
		if x, y := canonSorted(a.Resp[t]), canonSorted(b.Resp[t]); !sameStrings(x, y) {
			return fmt.Sprintf("responses[%s] %v vs %v", t, x, y)
		}
	}
	if len(a.UnprocKeys) != len(b.UnprocKeys) {
		return fmt.Sprintf("unprocessed keys %d vs %d", len(a.UnprocKeys), len(b.UnprocKeys))
	}
	return ""
}

func (e *Engine) exec1(step int, cmd *Cmd, twin bool) {
	st := Step{Cmd: cmd, Twin: twin}
	defer func() { e.res.Steps = append(e.res.Steps, st) }()
	e.res.NSteps++
	mc := e.M.Clients[cmd.C]
	drv := e.Drv[cmd.C]
	if cmd.RetOnFail && e.W.SDKs[cmd.C] == "v1" {
		cmd.RetOnFail = false // the SDK v1 request types have no ReturnValuesOnConditionCheckFailure
	}
	e.logf("%d %s", step, cmd.String())

	// ---- commands that only make sense relative to earlier ones
	switch cmd.Op {
	case "Native":
		// registering a Go matcher, or switching the native interpreter on, changes
		// what the filter of an open walk on this client means from the next page
		// on: such a walk is no longer one read, and is abandoned
		ids := make([]int, 0, len(e.walks))
		for id := range e.walks {
			ids = append(ids, id)
		}
		sort.Ints(ids)
		for _, id := range ids {
			ws := e.walks[id]
			if ws.done || ws.open.C != cmd.C || ws.open.Filter == nil {
				continue
			}
			if cmd.Native == "activate" || (cmd.T == ws.open.T && FilterText(cmd) == FilterText(ws.open)) {
				ws.done = true
			}
		}
	case "Poke":
		desc := e.Drv[cmd.C].Poke(cmd.Ref, cmd.Dir, cmd.Slot)
		if desc == "" {
			st.Skipped = true
			return
		}
		st.Note = desc
		if strings.Contains(desc, "LastEvaluatedKey") || strings.Contains(desc, "ExclusiveStartKey") {
			// the paginator's own continuation key was overwritten: the walk is abandoned
			for _, s := range e.res.Steps {
				if s.Cmd.ID == cmd.Ref && (s.Cmd.Op == "Open" || s.Cmd.Op == "Resume") {
					if ws := e.walks[s.Cmd.Walk]; ws != nil {
						ws.done = true
					}
				}
			}
		}
		e.fault("poke-" + cmd.Dir)
		e.logf("  poke %s", desc)
		st.Out = Outcome{Class: "ok"}
		e.afterStep(step, cmd, st.Out, Expect{Out: Outcome{Class: "ok"}}, &st)
		return
	case "Resume":
		ws := e.walks[cmd.Walk]
		if ws == nil || ws.done {
			st.Skipped = true
			return
		}
		// the page is read with the walk's own shape
		cmd = mergeWalk(cmd, ws.open)
		st.Cmd = cmd
	case "Open":
		if mc.Tables[cmd.T] == nil || mc.Fail != "none" {
			st.Skipped = true
			return
		}
		if cmd.Index != "" && mc.Tables[cmd.T].Def.index(cmd.Index) == nil {
			st.Skipped = true
			return
		}
	case "Query", "Scan":
		if mt := mc.Tables[cmd.T]; mt != nil && cmd.Index != "" && mt.Def.index(cmd.Index) == nil {
			st.Skipped = true // naming a missing index: nil dereference in the library, outside the claimed properties (appendix C)
			return
		}
	}

	var mt *MTable
	if cmd.T != "" {
		mt = mc.Tables[cmd.T]
	}
	if len(cmd.NeedN) > 0 {
		// attribute-to-attribute comparisons stay inside the fragment only while
		// the target holds numbers under every named attribute (a plan edited by
		// the minimiser may have lost the write that established them)
		k := cmd.Key
		if cmd.Op == "Put" {
			k = cmd.Item
		}
		ok := mt != nil && keyProblem(mt.Def.KeyAttrs(), k, false) == ""
		if ok {
			cur := mt.Items[KeyID(mt.Def, k)]
			for _, a := range cmd.NeedN {
				if v, has := cur[a]; !has || v.T != "N" {
					ok = false
				}
			}
		}
		if !ok {
			st.Skipped = true
			return
		}
	}
	if len(cmd.NeedHas) > 0 {
		// functions over a collection stay inside the fragment only while the
		// target item has it (as above)
		k := cmd.Key
		if cmd.Op == "Put" {
			k = cmd.Item
		}
		ok := mt != nil && keyProblem(mt.Def.KeyAttrs(), k, false) == ""
		if ok {
			cur := mt.Items[KeyID(mt.Def, k)]
			for a, typ := range cmd.NeedHas {
				v, has := cur[a]
				want, elem, _ := strings.Cut(typ, ":")
				if !has || v.T != want || (elem != "" && (len(v.L) == 0 || v.L[0].T != elem)) {
					ok = false
				}
			}
		}
		if !ok {
			st.Skipped = true
			return
		}
	}
	var ws *walkState
	if cmd.Op == "Open" {
		ws = e.openWalk(cmd, mc, drv)
	} else if cmd.Op == "Resume" {
		ws = e.walks[cmd.Walk]
	}
	pre := mt
	if isWrite(cmd.Op) {
		e.noteWrite(cmd, mc)
	}
	_ = pre
	var snap *Model
	if len(cmd.KeyExtra) > 0 {
		snap = e.M.Clone()
	}
	var before Item
	beforeID, haveBefore := "", false
	if mt != nil && (cmd.Op == "Put" || cmd.Op == "Update" || cmd.Op == "Delete") {
		k := cmd.Key
		if cmd.Op == "Put" {
			k = cmd.Item
		}
		if keyProblem(mt.Def.KeyAttrs(), k, false) == "" {
			beforeID, haveBefore = KeyID(mt.Def, k), true
			before = mt.Items[beforeID].Clone()
		}
	}
	ex := e.M.Apply(cmd)
	got := drv.Exec(cmd)
	if snap != nil && got.Failed() {
		// a Key map with attributes beyond the key schema may be rejected, or
		// served as if only the key attributes had been given (C13): on
		// rejection the model is rolled back and the call must leave no trace
		e.M = snap
		ex = Expect{AnyFail: true}
		e.probe("key-extra-rejected")
	} else if snap != nil {
		e.probe("key-extra-served")
	}
	if ex.Applied && mt != nil {
		e.reachWrite(cmd, mt, before)
	}
	st.Out = got
	e.logf("  -> %s", outcomeLine(got))
	e.countFaults(cmd, got)
	if got.Class == "skipped" {
		st.Skipped = true
		return
	}
	fails, quiet := CheckOutcome(cmd, ex, got, mt)
	if ws != nil && got.OK() {
		fails = append(fails, e.page(ws, cmd, ex, got)...)
	} else if ws != nil {
		ws.done = true
	}
	if simrt.HeldMutexes() > 0 {
		fails = append(fails, Fail{"C08.alive", "a mutex is still held after the call returned"}, Fail{"C11.dead", "a mutex is still held after the call returned"})
	}
	fails = keyExtraRules(cmd, fails)
	if cmd.Filter != nil && (cmd.Op == "Scan" || cmd.Op == "Query") {
		// a wrong filtered read on this client while ANOTHER client holds a Go
		// matcher for the same table and text: state leaked between clients
		key := cmd.T + "|" + FilterText(cmd)
		for oc, o := range e.M.Clients {
			if _, ok := o.Matchers[key]; ok && oc != cmd.C {
				for _, f := range fails {
					if f.Rule == "C02.set" {
						fails = append(fails, Fail{"C18.isolate", fmt.Sprintf("client %d registered a matcher for this table and filter text; client %d's read is wrong: %s", oc, cmd.C, f.Msg)})
						break
					}
				}
			}
		}
	}
	st.Fails = fails
	if haveBefore && snap == nil && len(fails) > 0 && !hasProp(fails, e.Prop) && got.Failed() && !ex.AnyFail && !ex.Unspecified && ex.Out.Class == "ok" &&
		e.M.Clients[cmd.C].Fail == "none" && e.res.OtherRule == "" && quiet == "" && (got.Class == "validation" || got.Class == "ccf" || strings.HasPrefix(got.Class, "other:")) {
		// A single-item write was refused where the model expected success. That
		// breaks a rule of another property (reported by that property's check);
		// for THIS check the run need not end: the refused write is taken out of
		// the model again, and if the call left no trace (C08, checked here and by
		// the state comparison of afterStep) model and implementation agree again
		// and the history goes on, so that this property's own rules still see the
		// rest of it.
		if before != nil {
			mt.Items[beforeID] = before
		} else {
			delete(mt.Items, beforeID)
		}
		e.probe("refused-write-taken-back:" + fails[0].Rule)
		e.res.Soft = append(e.res.Soft, fails[0].Rule)
		e.afterStep(step, cmd, got, Expect{AnyFail: true}, &st)
		return
	}
	e.addFails(step, cmd, fails)
	if e.stop && got.Failed() && len(e.res.Fails) == 0 && len(fails) > 0 && e.M.Clients[cmd.C].Fail == "none" && dataOp(cmd.Op) {
		// the call failed where the model expected success (another property's
		// rule, which ends the run): whatever the reason, a call that returned
		// an error must have left no trace (C08)
		prev := e.observeAll()
		var trace []Fail
		for c := range e.Drv {
			if e.M.Clients[c].Fail != "none" || prev[c] == "" || e.last[c] == nil {
				continue
			}
			if prev[c] != e.lastSig[c] {
				trace = append(trace, Fail{"C08.trace", fmt.Sprintf("%s failed (%s) but the observable state of client %d changed: %s", cmd.Op, got.Class, c, DiffSignatures(prev[c], e.lastSig[c]))})
			}
		}
		st.Fails = append(st.Fails, trace...)
		e.addFails(step, cmd, trace)
	}
	if e.stop {
		return
	}
	if quiet == "key-update-accepted" {
		// C13: an update naming a key attribute was accepted. The statement is
		// met if the key attributes are unchanged; checked black-box, then the
		// run ends (the model cannot follow an accepted-but-ignored action).
		e.observeAll()
		if u := e.W.uni(cmd.T); u != nil && mt != nil && e.last[cmd.C] != nil {
			e.addFails(step, cmd, CheckKeyInvariant(mt.Def, u, e.last[cmd.C][cmd.T]))
		}
		if !e.stop {
			e.quiet("update naming a key attribute accepted with key attributes intact")
		}
		return
	}
	if quiet != "" {
		e.quiet(quiet)
		return
	}
	e.afterStep(step, cmd, got, ex, &st)
}

func hasProp(fails []Fail, prop string) bool {
	for _, f := range fails {
		if f.Prop() == prop {
			return true
		}
	}
	return false
}

// dataOp: the operations C08 speaks about (the table and index definitions
// the observer reads through are the same before and after them).
func dataOp(op string) bool {
	switch op {
	case "Put", "Update", "Delete", "Get", "Query", "Scan", "BatchWrite", "BatchGet", "Transact":
		return true
	}
	return false
}

func mergeWalk(resume, open *Cmd) *Cmd {
	c := open.clone()
	c.ID, c.Op, c.Actor, c.Walk = resume.ID, "Resume", resume.Actor, resume.Walk
	return c
}

func (e *Engine) countFaults(cmd *Cmd, got Outcome) {
	if cmd.Op == "Bad" {
		e.fault("bad-" + cmd.Bad)
	}
	if cmd.Op == "Toggle" {
		e.fault("toggle-" + cmd.Fail)
	}
	if got.Failed() {
		e.fault("call-failed-" + got.Class)
	}
	if strings.HasPrefix(got.Class, "panic") {
		e.fault("abort-inside-call")
	}
	if got.Class == "panic-other" {
		e.fault("abort-inside-user-callback (native matcher)")
	}
}

// afterStep observes the state and applies the state rules.
func (e *Engine) afterStep(step int, cmd *Cmd, got Outcome, ex Expect, st *Step) {
	prev := e.observeAll()
	var fails []Fail
	touched := touchedTables(cmd)
	for c := range e.Drv {
		if e.M.Clients[c].Fail != "none" || e.last[c] == nil {
			continue
		}
		// (a) a failed call leaves no trace
		if got.Failed() && prev[c] != "" && prev[c] != e.lastSig[c] {
			msg := fmt.Sprintf("%s failed (%s) but the observable state of client %d changed: %s", cmd.Op, got.Class, c, DiffSignatures(prev[c], e.lastSig[c]))
			fails = append(fails, Fail{"C08.trace", msg})
			if got.Class == "ccf" {
				fails = append(fails, Fail{"C05.noeffect", msg})
			}
			if ex.Out.Class == "internal-server" || ex.Out.Class == "forced" {
				fails = append(fails, Fail{"C15.err", msg})
			}
			if cmd.Op == "Bad" && (cmd.Bad == "key-missing" || cmd.Bad == "key-type") {
				fails = append(fails, Fail{"C13.reject", msg})
			}
		}
		if ex.MayAccept && got.OK() && prev[c] != "" && prev[c] != e.lastSig[c] {
			// a request that DynamoDB rejects was accepted and did something: whether
			// it is rejected is not a claimed property, and the model cannot follow
			e.quiet("accepted request outside the claimed properties changed the state")
			return
		}
		// (b) the state equals the model
		for _, d := range CompareModel(e.W, e.M.Clients[c], e.last[c]) {
			for _, rule := range StateRules(cmd, c, d, touched) {
				fails = append(fails, Fail{rule, fmt.Sprintf("client %d after %s: %s", c, cmd.Op, d.String())})
			}
		}
		// (c) C13.invariant on every table
		for i := range e.W.Tables {
			u := &e.W.Tables[i]
			if mt := e.M.Clients[c].Tables[u.Name]; mt != nil {
				fails = append(fails, CheckKeyInvariant(mt.Def, u, e.last[c][u.Name])...)
			}
		}
		if e.Retain {
			for _, m := range e.Drv[c].Frozen() {
				fails = append(fails, Fail{"C14.frozen", m})
			}
		}
		e.res.States[e.lastSig[c]] = true
	}
	// C13.ident is implied by the model comparison on get/scan: restate it
	// under its own rule when the difference is on the base table.
	for _, f := range fails {
		if f.Rule == "C01.state" {
			fails = append(fails, Fail{"C13.ident", f.Msg})
			break
		}
	}
	fails = keyExtraRules(cmd, fails)
	st.Fails = append(st.Fails, fails...)
	e.logf("  state %s", hashStr(strings.Join(e.lastSig, "\n#\n")))
	e.addFails(step, cmd, fails)
	e.reach(cmd, got)
}

// keyExtraRules: for a request whose Key map carried attributes beyond the key
// schema, a wrong response or state is (also) a violation of C13.reject: the
// extra attribute must not end up stored or returned.
func keyExtraRules(cmd *Cmd, fails []Fail) []Fail {
	if len(cmd.KeyExtra) == 0 {
		return fails
	}
	for _, f := range fails {
		if strings.HasPrefix(f.Rule, "C01.") {
			return append(fails, Fail{"C13.reject", "request Key carried " + cmd.KeyExtra.Canon() + " beyond the key schema: " + f.Msg})
		}
	}
	return fails
}

func hashStr(s string) string {
	h := sha256.Sum256([]byte(s))
	return hex.EncodeToString(h[:8])
}

// noteWrite tells the open walks about a write that is about to happen.
func (e *Engine) noteWrite(cmd *Cmd, mc *MClient) {
	for _, id := range e.walkIDs() {
		ws := e.walks[id]
		if ws.done || ws.open.C != cmd.C {
			continue
		}
		t := ws.open.T
		mt := mc.Tables[t]
		switch cmd.Op {
		case "Put", "Update", "Delete":
			if cmd.T != t || mt == nil {
				continue
			}
			k := cmd.Key
			if cmd.Op == "Put" {
				k = cmd.Item
			}
			ws.interfered = true
			ws.touched[KeyID(mt.Def, k)] = true
			ws.bound++
			if ws.lastLEK != nil && keyProblem(mt.Def.KeyAttrs(), k, false) == "" && KeyID(mt.Def, k) == KeyID(mt.Def, ws.lastLEK) {
				what, dir, where := "rewritten", "forward", "base"
				if cmd.Op == "Delete" {
					what = "deleted"
				}
				if ws.open.Back {
					dir = "backward"
				}
				if ws.open.Index != "" {
					where = "index"
				}
				e.probe("c04-boundary-item-" + what + "-before-resume-" + dir + "-" + where)
			}
		case "BatchWrite":
			for _, r := range cmd.Batch {
				if r.T != t || mt == nil {
					continue
				}
				k := r.Del
				if r.Put != nil {
					k = r.Put
				}
				if k == nil {
					continue
				}
				ws.interfered = true
				ws.touched[KeyID(mt.Def, k)] = true
				ws.bound++
			}
		case "Clear", "Drop", "Create", "IndexCreate", "IndexDrop":
			if cmd.T == t {
				ws.interfered, ws.wrecked = true, true
			}
		}
	}
}

func (e *Engine) walkIDs() []int {
	ids := make([]int, 0, len(e.walks))
	for id := range e.walks {
		ids = append(ids, id)
	}
	sort.Ints(ids)
	return ids
}

func (e *Engine) openWalk(cmd *Cmd, mc *MClient, drv Driver) *walkState {
	ws := &walkState{open: cmd, leks: map[string]bool{}, touched: map[string]bool{}, startMatch: map[string]bool{}}
	mt := mc.Tables[cmd.T]
	ref := cmd.clone()
	ref.ID, ref.Limit = -1, 0
	if cmd.Part != nil {
		ref.Op = "Query"
	} else {
		ref.Op = "Scan"
	}
	ws.full = seqOf(drv.Exec(ref))
	e.Obs.Calls++
	n := 0
	if mt != nil {
		n = len(mt.Items)
		for _, it := range mt.Select(cmd.Index, cmd.Part, cmd.Sort, cmd.Filter, cmd.Back) {
			ws.startMatch[KeyID(mt.Def, it)] = true
		}
	}
	ws.bound = n + 2
	e.walks[cmd.Walk] = ws
	if cmd.Walk > e.maxWalkID {
		e.maxWalkID = cmd.Walk
	}
	return ws
}

// page applies the per-page rules and, at the end of a walk, the whole-walk rules.
func (e *Engine) page(ws *walkState, cmd *Cmd, ex Expect, got Outcome) []Fail {
	var fails []Fail
	add := func(rule, format string, a ...any) {
		fails = append(fails, Fail{rule, fmt.Sprintf("walk %d page %d: ", ws.open.Walk, ws.pages+1) + fmt.Sprintf(format, a...)})
	}
	ws.pages++
	lim := ws.open.Limit
	if lim > 0 && len(got.Items) > lim {
		add("C04.page", "%d items returned with Limit %d", len(got.Items), lim)
	}
	if got.Count != len(got.Items) {
		add("C02.count", "Count %d, %d items returned", got.Count, len(got.Items))
	}
	match := map[string]bool{}
	for _, it := range ex.Matching {
		match[it.Canon()] = true
	}
	for _, it := range got.Items {
		if len(ws.open.Proj) > 0 {
			break // projected items: only the walk-level rules apply
		}
		if !match[it.Canon()] {
			add("C04.page", "returned %s, which is not a matching item of the table at this call", it.Canon())
			break
		}
	}
	ws.items = append(ws.items, got.Items...)
	if got.LEK != nil {
		if mt := e.M.Clients[ws.open.C].Tables[ws.open.T]; mt != nil && ws.open.Index != "" {
			if ix := mt.Def.index(ws.open.Index); ix != nil && InIndex(*ix, got.LEK) {
				same := 0
				for _, it := range mt.Items {
					if InIndex(*ix, it) && keyOfIndex(*ix, it) == keyOfIndex(*ix, got.LEK) {
						same++
					}
				}
				if same > 1 {
					e.probe("c04-boundary-inside-a-run-of-equal-index-keys")
				}
			}
		}
		if len(got.Items) == 0 || !itemsEq(keyOfAny(got.Items[len(got.Items)-1], got.LEK), got.LEK) {
			e.probe("c04-boundary-on-an-item-the-filter-or-page-did-not-return")
		}
		k := got.LEK.Canon()
		if ws.leks[k] {
			add("C04.live", "LastEvaluatedKey %s handed back twice in one walk", k)
			ws.done = true
		}
		ws.leks[k] = true
		ws.lastLEK = got.LEK
		if ws.pages > ws.bound {
			add("C04.live", "walk still not finished after %d pages (%d allowed for this table)", ws.pages, ws.bound)
			ws.done = true
		}
		if ws.interfered {
			e.probe("walk-interfered-page")
		}
		return fails
	}
	// ---- the walk is complete
	ws.done = true
	ws.lastLEK = nil
	mc := e.M.Clients[ws.open.C]
	mt := mc.Tables[ws.open.T]
	if ws.wrecked || mt == nil {
		return fails
	}
	gotSeq := canonSeq(ws.items)
	if !ws.interfered {
		e.probe("walk-quiescent-complete")
		if ws.full.Class == "ok" && !sameStrings(gotSeq, canonSeq(ws.full.Items)) {
			add("C04.concat", "concatenation of %d page(s) %s differs from the unpaginated answer %s", ws.pages, brief(gotSeq), brief(canonSeq(ws.full.Items)))
		}
		if want := canonSorted(ex.Matching); len(ws.open.Proj) == 0 && !sameStrings(canonSorted(ws.items), want) {
			add("C04.concat", "paginated result %s is not the matching set %s", brief(canonSorted(ws.items)), brief(want))
		}
		return fails
	}
	e.probe("walk-interfering-complete")
	if len(ws.open.Proj) > 0 && !projHasKeys(ws.open.Proj, mt.Def) {
		return fails // without the key attributes the returned items cannot be attributed
	}
	// stable items: matching at open, matching now, never touched in between
	count := map[string]int{}
	for _, it := range ws.items {
		count[KeyID(mt.Def, it)]++
	}
	var stable []Item
	for _, it := range ex.Matching {
		id := KeyID(mt.Def, it)
		if ws.startMatch[id] && !ws.touched[id] {
			stable = append(stable, it)
			if count[id] != 1 {
				add("C04.stable", "item %s was present, matching and untouched during the whole walk but was returned %d time(s)", it.Canon(), count[id])
			}
		}
	}
	if ws.open.Part != nil && len(fails) == 0 {
		// relative order of the stable items follows the sort key
		rng := mt.Def.Range
		if ws.open.Index != "" {
			if ix := mt.Def.index(ws.open.Index); ix != nil {
				rng = ix.Range
			}
		}
		isStable := map[string]bool{}
		for _, it := range stable {
			isStable[KeyID(mt.Def, it)] = true
		}
		var seq []Item
		for _, it := range ws.items {
			if isStable[KeyID(mt.Def, it)] {
				seq = append(seq, it)
			}
		}
		if !orderOK(seq, rng, ws.open.Back) {
			add("C04.stable", "untouched items returned out of sort-key order: %s", brief(canonSeq(seq)))
		}
	}
	return fails
}

// FinishWalks drives every open walk to its end (bounded liveness once the
// plan - and with it every fault - has stopped).
func (e *Engine) FinishWalks(step int, nextID func() int) {
	for _, id := range e.walkIDs() {
		ws := e.walks[id]
		for guard := 0; !ws.done && !e.stop && guard < 200; guard++ {
			if e.M.Clients[ws.open.C].Fail != "none" {
				break
			}
			e.exec1(step, &Cmd{ID: nextID(), Op: "Resume", Actor: "engine", Walk: id, C: ws.open.C, T: ws.open.T}, false)
			step++
		}
	}
}

// reachWrite counts the write shapes the statements of C01 and C03 single out.
func (e *Engine) reachWrite(cmd *Cmd, mt *MTable, before Item) {
	if cmd.ID < 0 {
		return
	}
	k := cmd.Key
	if cmd.Op == "Put" {
		k = cmd.Item
	}
	id := KeyID(mt.Def, k)
	kid := fmt.Sprintf("%d/%s/%s", cmd.C, cmd.T, id)
	after := mt.Items[id]
	if e.deleted == nil {
		e.deleted = map[string]bool{}
	}
	switch cmd.Op {
	case "Put":
		switch {
		case before != nil:
			e.probe("c01-overwrite")
			if len(after) < len(before) {
				e.probe("c01-shrinking-attribute-set")
			}
		case e.deleted[kid]:
			e.probe("c01-delete-then-reput")
		}
	case "Update":
		switch {
		case before == nil && e.deleted[kid]:
			e.probe("c01-update-on-key-deleted-earlier")
		case before == nil:
			e.probe("c01-update-creates-item")
		case len(after) < len(before):
			e.probe("c01-attribute-removed-by-update")
		}
	case "Delete":
		if before == nil {
			e.probe("c01-delete-absent")
		} else {
			e.deleted[kid] = true
		}
	}
	if after != nil {
		delete(e.deleted, kid)
	}
	// index shapes
	for _, ix := range mt.Def.Indexes {
		was, is := before != nil && InIndex(ix, before), after != nil && InIndex(ix, after)
		others, sharing := 0, 0
		for oid, it := range mt.Items {
			if oid == id || !InIndex(ix, it) {
				continue
			}
			others++
			ref := after
			if ref == nil {
				ref = before
			}
			if ref != nil && InIndex(ix, ref) && keyOfIndex(ix, it) == keyOfIndex(ix, ref) {
				sharing++
			}
		}
		pfx := "c03-" + strings.ToLower(cmd.Op)
		switch {
		case !was && is && before != nil:
			e.probe(pfx + "-gives-existing-item-an-index-key")
		case !was && is:
			e.probe(pfx + "-new-item-enters-index")
		case was && is && keyOfIndex(ix, before) != keyOfIndex(ix, after):
			e.probe(pfx + "-changes-index-key")
		case was && !is && after != nil:
			e.probe(pfx + "-drops-index-key")
		case was && after == nil:
			e.probe("c03-delete-of-indexed-item")
		case !was && after == nil && before != nil && others > 0:
			e.probe("c03-delete-of-non-indexed-item-while-others-indexed")
		}
		if (was || is) && others > 0 {
			e.probe("c03-write-with-other-items-in-index")
		}
		if sharing > 0 {
			e.probe("c03-write-with-items-sharing-the-index-key")
		}
	}
}

func projHasKeys(proj []string, def TableDef) bool {
	has := map[string]bool{}
	for _, p := range proj {
		has[p] = true
	}
	for _, k := range def.KeyAttrs() {
		if !has[k.Name] {
			return false
		}
	}
	return true
}

// keyOfAny projects an item on the attribute names of a continuation key.
func keyOfAny(it, lek Item) Item {
	k := Item{}
	for n := range lek {
		if v, ok := it[n]; ok {
			k[n] = v
		}
	}
	return k
}

func keyOfIndex(ix IndexDef, it Item) string {
	s := it[ix.Hash.Name].Canon()
	if ix.Range != nil {
		s += "|" + it[ix.Range.Name].Canon()
	}
	return s
}

// reach counts how often the shapes the properties single out were hit.
func (e *Engine) reach(cmd *Cmd, got Outcome) {
	if cmd.ID < 0 {
		return
	}
	e.probe("op-" + cmd.Op)
	if mc := e.M.Clients[cmd.C]; got.OK() && cmd.T != "" && mc.Tables[cmd.T] != nil {
		n := len(mc.Tables[cmd.T].Items)
		switch cmd.Op {
		case "IndexCreate":
			if n > 0 {
				e.probe("c03-index-created-over-non-empty-table")
			}
		case "Create":
			if e.dropped[fmt.Sprintf("%d/%s", cmd.C, cmd.T)] {
				e.probe("c18-table-re-created-under-a-dropped-name")
			}
		}
	}
	if got.OK() && cmd.Op == "Drop" {
		if e.dropped == nil {
			e.dropped = map[string]bool{}
		}
		e.dropped[fmt.Sprintf("%d/%s", cmd.C, cmd.T)] = true
	}
	if got.Failed() {
		e.probe("failed-" + cmd.Op)
	}
	if cmd.Cond != nil {
		e.probe("conditional-" + cmd.Op + "-" + got.Class)
	}
}

// Finish closes the run.
func (e *Engine) Finish() *RunResult {
	UndoPokes()
	h := sha256.Sum256([]byte(e.log.String()))
	e.res.LogHash = hex.EncodeToString(h[:])
	e.res.ObsCalls = e.Obs.Calls
	return e.res
}

// Log returns the event log text (for determinism diffs).
func (e *Engine) Log() string { return e.log.String() }
