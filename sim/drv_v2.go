package sim

import (
	"context"
	"errors"
	"fmt"
	"runtime"
	"sort"
	"strings"

	"github.com/aws/aws-sdk-go-v2/aws"
	"github.com/aws/aws-sdk-go-v2/service/dynamodb"
	"github.com/aws/aws-sdk-go-v2/service/dynamodb/types"
	"github.com/aws/smithy-go"
	v2 "github.com/truora/minidyn/aws-v2/client"
	"github.com/truora/minidyn/interpreter"
	"github.com/truora/minidyn/simrt"
	mtypes "github.com/truora/minidyn/types"
)

// Driver executes abstract commands against one real client.
type Driver interface {
	SDK() string
	Exec(cmd *Cmd) Outcome
	// Poke mutates one location of a structure retained from command ref.
	Poke(ref int, dir string, slot int) string
	// Frozen compares retained, un-poked outputs with their snapshots.
	Frozen() []string
	PokeStats() map[string]int
}

type retained struct {
	in, out  []root
	inPoked  bool
	outPoked bool
	outCanon []string
}

// root is one caller-visible structure: an attribute map of either SDK, or a
// names map.
type root struct {
	label string
	v     any
}

// V2 drives aws-v2/client.
type V2 struct {
	cl      *v2.Client
	retain  bool
	kept    map[int]*retained
	walks   map[int]*walkV2
	stats   map[string]int
	lastLEK map[string]types.AttributeValue
}

type walkV2 struct {
	open *Cmd
	lek  map[string]types.AttributeValue
	done bool
}

func NewV2(retain bool) *V2 {
	return &V2{cl: v2.NewClient(), retain: retain, kept: map[int]*retained{}, walks: map[int]*walkV2{}, stats: map[string]int{}}
}

func (d *V2) SDK() string               { return "v2" }
func (d *V2) PokeStats() map[string]int { return d.stats }

var bg = context.Background()

func toV2(v AV) types.AttributeValue {
	switch v.T {
	case "S":
		return &types.AttributeValueMemberS{Value: v.S}
	case "N":
		return &types.AttributeValueMemberN{Value: v.S}
	case "B":
		return &types.AttributeValueMemberB{Value: append([]byte{}, v.B...)}
	case "BOOL":
		return &types.AttributeValueMemberBOOL{Value: v.Bool}
	case "NULL":
		return &types.AttributeValueMemberNULL{Value: true}
	case "L":
		l := make([]types.AttributeValue, len(v.L))
		for i, e := range v.L {
			l[i] = toV2(e)
		}
		return &types.AttributeValueMemberL{Value: l}
	case "M":
		m := make(map[string]types.AttributeValue, len(v.M))
		for k, e := range v.M {
			m[k] = toV2(e)
		}
		return &types.AttributeValueMemberM{Value: m}
	case "SS":
		return &types.AttributeValueMemberSS{Value: append([]string{}, v.SS...)}
	case "NS":
		return &types.AttributeValueMemberNS{Value: append([]string{}, v.SS...)}
	case "BS":
		b := make([][]byte, len(v.BS))
		for i, e := range v.BS {
			b[i] = append([]byte{}, e...)
		}
		return &types.AttributeValueMemberBS{Value: b}
	}
	panic("toV2: bad type " + v.T)
}

func itemToV2(it Item) map[string]types.AttributeValue {
	if it == nil {
		return nil
	}
	m := make(map[string]types.AttributeValue, len(it))
	for k, v := range it {
		m[k] = toV2(v)
	}
	return m
}

func fromV2(a types.AttributeValue) AV {
	switch x := a.(type) {
	case *types.AttributeValueMemberS:
		return S(x.Value)
	case *types.AttributeValueMemberN:
		return N(x.Value)
	case *types.AttributeValueMemberB:
		return AV{T: "B", B: append([]byte{}, x.Value...)}
	case *types.AttributeValueMemberBOOL:
		return Bool(x.Value)
	case *types.AttributeValueMemberNULL:
		if !x.Value {
			return AV{T: "NULL", Bool: true} // NULL:false - not a valid value; keeps it distinguishable
		}
		return Null()
	case *types.AttributeValueMemberL:
		l := make([]AV, len(x.Value))
		for i, e := range x.Value {
			l[i] = fromV2(e)
		}
		return AV{T: "L", L: l}
	case *types.AttributeValueMemberM:
		m := make(map[string]AV, len(x.Value))
		for k, e := range x.Value {
			m[k] = fromV2(e)
		}
		return AV{T: "M", M: m}
	case *types.AttributeValueMemberSS:
		return AV{T: "SS", SS: append([]string{}, x.Value...)}
	case *types.AttributeValueMemberNS:
		return AV{T: "NS", SS: append([]string{}, x.Value...)}
	case *types.AttributeValueMemberBS:
		b := make([][]byte, len(x.Value))
		for i, e := range x.Value {
			b[i] = append([]byte{}, e...)
		}
		return AV{T: "BS", BS: b}
	}
	return AV{T: "?"}
}

func itemFromV2(m map[string]types.AttributeValue) Item {
	if len(m) == 0 {
		return nil
	}
	it := make(Item, len(m))
	for k, v := range m {
		it[k] = fromV2(v)
	}
	return it
}

type coder interface{ Code() string }

// classify maps an error or a recovered panic value to an outcome class.
func classifyCode(code string) string {
	switch code {
	case "ConditionalCheckFailedException":
		return "ccf"
	case "ValidationException", "InvalidParameter", "InvalidParameterType", "ParamRequiredError", "ParamMinLenError", "ParamMinValueError":
		return "validation"
	case "ResourceNotFoundException":
		return "not-found"
	case "ResourceInUseException":
		return "in-use"
	case "InternalServerError":
		return "internal-server"
	}
	return "other:" + code
}

func classifyPanic(r any) (string, string) {
	switch x := r.(type) {
	case simrt.ErrWouldBlock:
		return "never-returns", x.Error()
	case simrt.ErrBadUnlock:
		return "panic-unlock", x.Error()
	case runtime.Error:
		return "panic-runtime", scrub(x.Error())
	case error:
		if errors.Is(x, interpreter.ErrSyntaxError) {
			return "panic-syntax", scrub(x.Error())
		}
		if errors.Is(x, interpreter.ErrUnsupportedFeature) {
			return "panic-unsupported", scrub(x.Error())
		}
		return "panic-other", scrub(x.Error())
	}
	return "panic-other", scrub(fmt.Sprint(r))
}

func (d *V2) classify(err error, o *Outcome) {
	if err == nil {
		o.Class = "ok"
		return
	}
	o.Err = scrub(err.Error())
	var ccf *types.ConditionalCheckFailedException
	if errors.As(err, &ccf) {
		o.Class = "ccf"
		if len(ccf.Item) > 0 {
			o.HasCCF = true
			o.CCFItem = itemFromV2(ccf.Item)
			d.keepOut(o, "ccf.Item", ccf.Item)
		}
		return
	}
	var nf *types.ResourceNotFoundException
	var iu *types.ResourceInUseException
	var is *types.InternalServerError
	switch {
	case errors.As(err, &nf):
		o.Class = "not-found"
	case errors.As(err, &iu):
		o.Class = "in-use"
	case errors.As(err, &is):
		o.Class = "internal-server"
	case errors.Is(err, v2.ErrForcedFailure):
		o.Class = "forced"
	default:
		var ae smithy.APIError
		var ce coder
		switch {
		case errors.As(err, &ae):
			o.Class = classifyCode(ae.ErrorCode())
		case errors.As(err, &ce):
			o.Class = classifyCode(ce.Code())
		case errors.Is(err, interpreter.ErrUnsupportedFeature):
			o.Class = "other:unsupported"
		case errors.Is(err, interpreter.ErrSyntaxError):
			o.Class = "other:syntax"
		default:
			o.Class = "other:unclassified"
		}
	}
}

// current command's retention record
var _ = sort.Strings

func (d *V2) keepIn(id int, label string, v any) {
	if !d.retain || v == nil || id < 0 {
		return
	}
	r := d.kept[id]
	if r == nil {
		r = &retained{}
		d.kept[id] = r
	}
	r.in = append(r.in, root{label, v})
}

// keepOut records a structure returned by the call in progress (d.cur).
func (d *V2) keepOut(o *Outcome, label string, v any) {
	if !d.retain || v == nil || curID < 0 {
		return
	}
	r := d.kept[curID]
	if r == nil {
		r = &retained{}
		d.kept[curID] = r
	}
	r.out = append(r.out, root{label, v})
	r.outCanon = append(r.outCanon, rootCanon(v))
}

// curID is the id of the command being executed (one simulation per process).
var curID int

// Exec translates and runs one command.
func (d *V2) Exec(cmd *Cmd) (o Outcome) {
	curID = cmd.ID
	defer func() {
		if r := recover(); r != nil {
			if simrt.IsAbort(r) {
				panic(r)
			}
			o = Outcome{}
			o.Class, o.Err = classifyPanic(r)
		}
	}()
	switch cmd.Op {
	case "Create":
		return d.create(cmd)
	case "Drop":
		out, err := d.cl.DeleteTable(bg, &dynamodb.DeleteTableInput{TableName: aws.String(cmd.T)})
		d.classify(err, &o)
		if err == nil {
			o.Desc = descFromV2(out.TableDescription)
		}
	case "Clear":
		d.classify(v2.ClearTable(d.cl, cmd.T), &o)
	case "Describe":
		out, err := d.cl.DescribeTable(bg, &dynamodb.DescribeTableInput{TableName: aws.String(cmd.T)})
		d.classify(err, &o)
		if err == nil {
			o.Desc = descFromV2(out.Table)
		}
	case "IndexCreate":
		return d.indexCreate(cmd)
	case "IndexDrop":
		out, err := d.cl.UpdateTable(bg, &dynamodb.UpdateTableInput{TableName: aws.String(cmd.T),
			GlobalSecondaryIndexUpdates: []types.GlobalSecondaryIndexUpdate{{Delete: &types.DeleteGlobalSecondaryIndexAction{IndexName: aws.String(cmd.Index)}}}})
		d.classify(err, &o)
		if err == nil {
			o.Desc = descFromV2(out.TableDescription)
		}
	case "Toggle":
		switch cmd.Entry {
		case "active":
			v2.ActiveForceFailure(d.cl)
		case "deactive":
			v2.DeactiveForceFailure(d.cl)
		default:
			v2.EmulateFailure(d.cl, v2.FailureCondition(cmd.Fail))
		}
		o.Class = "ok"
	case "Put":
		return d.put(cmd)
	case "Get":
		return d.get(cmd)
	case "Delete":
		return d.del(cmd)
	case "Update":
		return d.update(cmd)
	case "Query", "Scan":
		return d.search(cmd, cmd, nil)
	case "Open":
		w := &walkV2{open: cmd}
		d.walks[cmd.Walk] = w
		o = d.search(cmd, cmd, nil)
		w.step(o, d.lastLEK)
	case "Resume":
		w := d.walks[cmd.Walk]
		if w == nil || w.done {
			return Outcome{Class: "skipped"}
		}
		o = d.search(cmd, w.open, w.lek)
		w.step(o, d.lastLEK)
	case "BatchWrite":
		return d.batchWrite(cmd)
	case "BatchGet":
		return d.batchGet(cmd)
	case "Transact":
		_, err := d.cl.TransactWriteItems(bg, &dynamodb.TransactWriteItemsInput{})
		d.classify(err, &o)
	case "Native":
		if cmd.Native == "activate" {
			d.cl.ActivateNativeInterpreter()
		}
		if cmd.Native == "reset" {
			d.cl.SetInterpreter(interpreter.NewNativeInterpreter())
		}
		if cmd.Native == "debug" {
			d.cl.ActivateDebug()
		}
		if cmd.Native == "metrics" {
			v2.SetItemCollectionMetrics(d.cl, map[string][]types.ItemCollectionMetrics{})
		}
		if cmd.Native == "updater-panic" {
			d.cl.GetNativeInterpreter().AddUpdater(cmd.T, UpdText(cmd), func(item, _ map[string]*mtypes.Item) {
				s := "partial"
				item["a"] = &mtypes.Item{S: &s}
				panic("harness updater panics on purpose")
			})
		}
		if cmd.Native == "updater-set" {
			d.cl.GetNativeInterpreter().AddUpdater(cmd.T, UpdText(cmd), func(item, _ map[string]*mtypes.Item) {
				s := "native-updater"
				item["a"] = &mtypes.Item{S: &s}
			})
		}
		if cmd.Native == "matcher-panic" {
			d.cl.GetNativeInterpreter().AddMatcher(cmd.T, interpreter.ExpressionTypeFilter, FilterText(cmd), func(_, _ map[string]*mtypes.Item) bool { panic("harness matcher panics on purpose") })
		}
		if cmd.Native == "matcher" {
			verdict := cmd.Verdict
			d.cl.GetNativeInterpreter().AddMatcher(cmd.T, interpreter.ExpressionTypeFilter, FilterText(cmd), func(_, _ map[string]*mtypes.Item) bool { return verdict })
		}
		o.Class = "ok"
	case "Bad":
		return d.bad(cmd)
	default:
		panic("v2 driver: unknown op " + cmd.Op)
	}
	return o
}

func (w *walkV2) step(o Outcome, lek map[string]types.AttributeValue) {
	if o.Class != "ok" || len(lek) == 0 {
		w.done = true
		w.lek = nil
		return
	}
	w.lek = lek
}

func keySchemaV2(keys []KeyDef) []types.KeySchemaElement {
	ks := []types.KeySchemaElement{{AttributeName: aws.String(keys[0].Name), KeyType: types.KeyTypeHash}}
	if len(keys) > 1 {
		ks = append(ks, types.KeySchemaElement{AttributeName: aws.String(keys[1].Name), KeyType: types.KeyTypeRange})
	}
	return ks
}

func attrDefsV2(m map[string]string) []types.AttributeDefinition {
	var out []types.AttributeDefinition
	for _, k := range sortedKeys(m) {
		out = append(out, types.AttributeDefinition{AttributeName: aws.String(k), AttributeType: types.ScalarAttributeType(m[k])})
	}
	return out
}

var tenUnits = &types.ProvisionedThroughput{ReadCapacityUnits: aws.Int64(10), WriteCapacityUnits: aws.Int64(10)}

func (d *V2) create(cmd *Cmd) (o Outcome) {
	def := cmd.Def
	if cmd.Helper {
		rng := ""
		if def.Range != nil {
			rng = def.Range.Name
		}
		d.classify(v2.AddTable(bg, d.cl, def.Name, def.Hash.Name, rng), &o)
		return o
	}
	in := &dynamodb.CreateTableInput{
		TableName:            aws.String(def.Name),
		AttributeDefinitions: attrDefsV2(def.AttrTypes()),
		KeySchema:            keySchemaV2(def.KeyAttrs()),
	}
	if def.Billing == "PAY_PER_REQUEST" {
		in.BillingMode = types.BillingModePayPerRequest
	} else {
		in.BillingMode = types.BillingModeProvisioned
		in.ProvisionedThroughput = tenUnits
	}
	for _, ix := range def.Indexes {
		proj := &types.Projection{ProjectionType: types.ProjectionTypeAll}
		if ix.Kind == "gsi" {
			g := types.GlobalSecondaryIndex{IndexName: aws.String(ix.Name), KeySchema: keySchemaV2(ix.KeyAttrs()), Projection: proj}
			if def.Billing != "PAY_PER_REQUEST" {
				g.ProvisionedThroughput = tenUnits
			}
			in.GlobalSecondaryIndexes = append(in.GlobalSecondaryIndexes, g)
		} else {
			in.LocalSecondaryIndexes = append(in.LocalSecondaryIndexes, types.LocalSecondaryIndex{IndexName: aws.String(ix.Name), KeySchema: keySchemaV2(ix.KeyAttrs()), Projection: proj})
		}
	}
	out, err := d.cl.CreateTable(bg, in)
	d.classify(err, &o)
	if err == nil {
		o.Desc = descFromV2(out.TableDescription)
	}
	return o
}

func (d *V2) indexCreate(cmd *Cmd) (o Outcome) {
	ix := cmd.IdxDef
	if cmd.Helper {
		rng := ""
		if ix.Range != nil {
			rng = ix.Range.Name
		}
		d.classify(v2.AddIndex(bg, d.cl, cmd.T, ix.Name, ix.Hash.Name, rng), &o)
		return o
	}
	defs := map[string]string{}
	for _, k := range ix.KeyAttrs() {
		defs[k.Name] = k.Type
	}
	out, err := d.cl.UpdateTable(bg, &dynamodb.UpdateTableInput{TableName: aws.String(cmd.T), AttributeDefinitions: attrDefsV2(defs),
		GlobalSecondaryIndexUpdates: []types.GlobalSecondaryIndexUpdate{{Create: &types.CreateGlobalSecondaryIndexAction{
			IndexName: aws.String(ix.Name), KeySchema: keySchemaV2(ix.KeyAttrs()),
			Projection: &types.Projection{ProjectionType: types.ProjectionTypeAll}, ProvisionedThroughput: tenUnits}}}})
	d.classify(err, &o)
	if err == nil {
		o.Desc = descFromV2(out.TableDescription)
	}
	return o
}

func descFromV2(t *types.TableDescription) *TableDesc {
	if t == nil {
		return nil
	}
	d := &TableDesc{Name: aws.ToString(t.TableName), ItemCount: aws.ToInt64(t.ItemCount), Indexes: map[string]string{}, IdxCount: map[string]int64{}}
	d.Keys = schemaFromV2(t.KeySchema)
	for _, g := range t.GlobalSecondaryIndexes {
		n := uniqueIndexName(d, aws.ToString(g.IndexName))
		d.Indexes[n] = "gsi " + schemaFromV2(g.KeySchema)
		d.IdxCount[n] = -1
		if g.ItemCount != nil {
			d.IdxCount[n] = *g.ItemCount
		}
	}
	for _, l := range t.LocalSecondaryIndexes {
		n := uniqueIndexName(d, aws.ToString(l.IndexName))
		d.Indexes[n] = "lsi " + schemaFromV2(l.KeySchema)
		d.IdxCount[n] = -1
		if l.ItemCount != nil {
			d.IdxCount[n] = *l.ItemCount
		}
	}
	return d
}

func schemaFromV2(ks []types.KeySchemaElement) string {
	s := ""
	for i, k := range ks {
		if i > 0 {
			s += ","
		}
		s += aws.ToString(k.AttributeName) + ":" + string(k.KeyType)
	}
	return s
}

// exprParts renders the expressions of a command into SDK fields.
type exprParts struct {
	cond, upd, keyc, filter *string
	names                   map[string]string
	values                  map[string]types.AttributeValue
}

func strp(s string) *string {
	if s == "" {
		return nil
	}
	return &s
}

func renderKeyCond(b *Binder, hashName string, part AV, sortc *Expr) string {
	s := (&Expr{Op: "=", Path: &Path{Attr: hashName, Alias: true}, Vals: []AV{part}}).Render(b)
	if sortc != nil {
		s += " AND " + sortc.Render(b)
	}
	return s
}

func (d *V2) parts(cmd *Cmd, hashName string) exprParts {
	b := NewBinder()
	var p exprParts
	if cmd.Part != nil {
		p.keyc = strp(renderKeyCond(b, hashName, *cmd.Part, cmd.Sort))
	}
	if cmd.Filter != nil {
		p.filter = strp(cmd.Filter.Render(b))
	}
	if cmd.Upd != nil {
		p.upd = strp(cmd.Upd.Render(b))
	}
	if cmd.Cond != nil {
		p.cond = strp(cmd.Cond.Render(b))
	}
	if len(b.Names) > 0 {
		p.names = b.Names
	}
	if len(b.Values) > 0 {
		p.values = itemToV2(b.Values)
	}
	return p
}

func (d *V2) put(cmd *Cmd) (o Outcome) {
	p := d.parts(cmd, "")
	in := &dynamodb.PutItemInput{TableName: aws.String(cmd.T), Item: itemToV2(cmd.Item), ConditionExpression: p.cond,
		ExpressionAttributeNames: p.names, ExpressionAttributeValues: p.values}
	if cmd.RetOnFail {
		in.ReturnValuesOnConditionCheckFailure = types.ReturnValuesOnConditionCheckFailureAllOld
	}
	d.keepIn(cmd.ID, "Item", in.Item)
	d.keepIn(cmd.ID, "Values", p.values)
	out, err := d.cl.PutItem(bg, in)
	d.classify(err, &o)
	if err == nil && out != nil {
		d.keepOut(&o, "out.Attributes", out.Attributes)
	}
	return o
}

func (d *V2) get(cmd *Cmd) (o Outcome) {
	in := &dynamodb.GetItemInput{TableName: aws.String(cmd.T), Key: itemToV2(fullKey(cmd))}
	if pe, names := projection(cmd); pe != "" {
		in.ProjectionExpression, in.ExpressionAttributeNames = aws.String(pe), names
	}
	d.keepIn(cmd.ID, "Key", in.Key)
	out, err := d.cl.GetItem(bg, in)
	d.classify(err, &o)
	if err == nil {
		o.Item = itemFromV2(out.Item)
		d.keepOut(&o, "out.Item", out.Item)
	}
	return o
}

func (d *V2) del(cmd *Cmd) (o Outcome) {
	p := d.parts(cmd, "")
	in := &dynamodb.DeleteItemInput{TableName: aws.String(cmd.T), Key: itemToV2(fullKey(cmd)), ConditionExpression: p.cond,
		ExpressionAttributeNames: p.names, ExpressionAttributeValues: p.values, ReturnValues: types.ReturnValueAllOld}
	if cmd.RetOnFail {
		in.ReturnValuesOnConditionCheckFailure = types.ReturnValuesOnConditionCheckFailureAllOld
	}
	d.keepIn(cmd.ID, "Key", in.Key)
	d.keepIn(cmd.ID, "Values", p.values)
	out, err := d.cl.DeleteItem(bg, in)
	d.classify(err, &o)
	if err == nil {
		o.Item = itemFromV2(out.Attributes)
		d.keepOut(&o, "out.Attributes", out.Attributes)
	}
	return o
}

func (d *V2) update(cmd *Cmd) (o Outcome) {
	p := d.parts(cmd, "")
	in := &dynamodb.UpdateItemInput{TableName: aws.String(cmd.T), Key: itemToV2(fullKey(cmd)), UpdateExpression: p.upd, ConditionExpression: p.cond,
		ExpressionAttributeNames: p.names, ExpressionAttributeValues: p.values, ReturnValues: types.ReturnValueAllNew}
	if cmd.RetOnFail {
		in.ReturnValuesOnConditionCheckFailure = types.ReturnValuesOnConditionCheckFailureAllOld
	}
	if in.UpdateExpression == nil {
		in.UpdateExpression = aws.String("")
	}
	if cmd.RetVal != "" {
		in.ReturnValues = types.ReturnValue(cmd.RetVal)
	}
	d.keepIn(cmd.ID, "Key", in.Key)
	d.keepIn(cmd.ID, "Values", p.values)
	out, err := d.cl.UpdateItem(bg, in)
	d.classify(err, &o)
	if err == nil {
		o.Item = itemFromV2(out.Attributes)
		d.keepOut(&o, "out.Attributes", out.Attributes)
	}
	return o
}

// lastLEK: raw continuation key of the last search (handed back verbatim).
func (d *V2) search(cmd, shape *Cmd, lek map[string]types.AttributeValue) (o Outcome) {
	p := d.parts(shape, shape.HashAttr)
	d.lastLEK = nil
	var lim *int32
	if shape.Limit > 0 {
		lim = aws.Int32(int32(shape.Limit))
	}
	var items []map[string]types.AttributeValue
	var outLEK map[string]types.AttributeValue
	var count int32
	var err error
	if shape.Part != nil {
		in := &dynamodb.QueryInput{TableName: aws.String(shape.T), IndexName: strp(shape.Index), KeyConditionExpression: p.keyc, FilterExpression: p.filter,
			ExpressionAttributeNames: p.names, ExpressionAttributeValues: p.values, Limit: lim, ExclusiveStartKey: lek}
		if shape.Back {
			in.ScanIndexForward = aws.Bool(false)
		}
		if len(shape.Proj) > 0 {
			in.ProjectionExpression = aws.String(strings.Join(shape.Proj, ", "))
		}
		d.keepIn(cmd.ID, "Values", p.values)
		d.keepIn(cmd.ID, "ExclusiveStartKey", lek)
		var out *dynamodb.QueryOutput
		out, err = d.cl.Query(bg, in)
		if err == nil {
			items, outLEK, count = out.Items, out.LastEvaluatedKey, out.Count
		}
	} else {
		in := &dynamodb.ScanInput{TableName: aws.String(shape.T), IndexName: strp(shape.Index), FilterExpression: p.filter,
			ExpressionAttributeNames: p.names, ExpressionAttributeValues: p.values, Limit: lim, ExclusiveStartKey: lek}
		if len(shape.Proj) > 0 {
			in.ProjectionExpression = aws.String(strings.Join(shape.Proj, ", "))
		}
		d.keepIn(cmd.ID, "Values", p.values)
		d.keepIn(cmd.ID, "ExclusiveStartKey", lek)
		var out *dynamodb.ScanOutput
		out, err = d.cl.Scan(bg, in)
		if err == nil {
			items, outLEK, count = out.Items, out.LastEvaluatedKey, out.Count
		}
	}
	d.classify(err, &o)
	if err != nil {
		return o
	}
	o.Items = make([]Item, len(items))
	for i, it := range items {
		o.Items[i] = orEmpty(itemFromV2(it))
		d.keepOut(&o, fmt.Sprintf("out.Items[%d]", i), it)
	}
	o.Count = int(count)
	if len(outLEK) > 0 {
		o.LEK = itemFromV2(outLEK)
		d.lastLEK = outLEK
		d.keepOut(&o, "out.LastEvaluatedKey", outLEK)
	}
	return o
}

func (d *V2) batchWrite(cmd *Cmd) (o Outcome) {
	req := map[string][]types.WriteRequest{}
	same := map[string]types.WriteRequest{} // identical puts share one PutRequest, as a caller reusing it would
	for i, r := range cmd.Batch {
		if r.Put != nil && !r.Both {
			if w, ok := same[r.Put.Canon()]; ok {
				req[r.T] = append(req[r.T], w)
				continue
			}
		}
		var w types.WriteRequest
		if r.Put != nil || r.Both {
			it := itemToV2(r.Put)
			w.PutRequest = &types.PutRequest{Item: it}
			d.keepIn(cmd.ID, fmt.Sprintf("batch[%d].Item", i), it)
		}
		if r.Del != nil || r.Both {
			k := itemToV2(r.Del)
			w.DeleteRequest = &types.DeleteRequest{Key: k}
			d.keepIn(cmd.ID, fmt.Sprintf("batch[%d].Key", i), k)
		}
		if r.Put != nil && !r.Both {
			same[r.Put.Canon()] = w
		}
		req[r.T] = append(req[r.T], w)
	}
	out, err := d.cl.BatchWriteItem(bg, &dynamodb.BatchWriteItemInput{RequestItems: req})
	d.classify(err, &o)
	if err == nil {
		for _, t := range sortedKeys(out.UnprocessedItems) {
			if len(out.UnprocessedItems[t]) == 0 {
				o.UnprocEmpty = append(o.UnprocEmpty, t)
			}
			for _, w := range out.UnprocessedItems[t] {
				r := BatchReq{T: t}
				if w.PutRequest != nil {
					r.Put = orEmpty(itemFromV2(w.PutRequest.Item))
				}
				if w.DeleteRequest != nil {
					r.Del = orEmpty(itemFromV2(w.DeleteRequest.Key))
				}
				o.Unproc = append(o.Unproc, r)
			}
		}
	}
	return o
}

func (d *V2) batchGet(cmd *Cmd) (o Outcome) {
	req := map[string]types.KeysAndAttributes{}
	for i, g := range cmd.Gets {
		ka := req[g.T]
		k := itemToV2(g.Key)
		d.keepIn(cmd.ID, fmt.Sprintf("gets[%d].Key", i), k)
		ka.Keys = append(ka.Keys, k)
		if pe, names := projection(cmd); pe != "" {
			ka.ProjectionExpression, ka.ExpressionAttributeNames = aws.String(pe), names
		}
		req[g.T] = ka
	}
	out, err := d.cl.BatchGetItem(bg, &dynamodb.BatchGetItemInput{RequestItems: req})
	d.classify(err, &o)
	if err == nil {
		o.Resp = map[string][]Item{}
		for _, t := range sortedKeys(out.Responses) {
			o.Resp[t] = []Item{}
			for i, it := range out.Responses[t] {
				o.Resp[t] = append(o.Resp[t], orEmpty(itemFromV2(it)))
				d.keepOut(&o, fmt.Sprintf("out.Responses[%s][%d]", t, i), it)
			}
		}
		for _, t := range sortedKeys(out.UnprocessedKeys) {
			if len(out.UnprocessedKeys[t].Keys) == 0 {
				o.UnprocEmpty = append(o.UnprocEmpty, t)
			}
			for _, k := range out.UnprocessedKeys[t].Keys {
				o.UnprocKeys = append(o.UnprocKeys, BatchKey{T: t, Key: orEmpty(itemFromV2(k))})
			}
		}
	}
	return o
}

// bad sends one deliberately failing request (fault classes F2-F4).
func (d *V2) bad(cmd *Cmd) (o Outcome) {
	names := cmd.RawName
	var vals map[string]types.AttributeValue
	if len(cmd.RawVals) > 0 {
		vals = itemToV2(cmd.RawVals)
	}
	if len(names) == 0 {
		names = nil
	}
	var err error
	switch cmd.Base {
	case "Put":
		_, err = d.cl.PutItem(bg, &dynamodb.PutItemInput{TableName: aws.String(cmd.T), Item: itemToV2(cmd.Item), ConditionExpression: strp(cmd.RawExpr),
			ExpressionAttributeNames: names, ExpressionAttributeValues: vals})
	case "Get":
		_, err = d.cl.GetItem(bg, &dynamodb.GetItemInput{TableName: aws.String(cmd.T), Key: itemToV2(fullKey(cmd)), ExpressionAttributeNames: names})
	case "Delete":
		_, err = d.cl.DeleteItem(bg, &dynamodb.DeleteItemInput{TableName: aws.String(cmd.T), Key: itemToV2(fullKey(cmd)), ConditionExpression: strp(cmd.RawExpr),
			ExpressionAttributeNames: names, ExpressionAttributeValues: vals})
	case "Update":
		in := &dynamodb.UpdateItemInput{TableName: aws.String(cmd.T), Key: itemToV2(fullKey(cmd)), UpdateExpression: aws.String(cmd.RawExpr),
			ExpressionAttributeNames: names, ExpressionAttributeValues: vals}
		if cmd.Cond != nil { // well-formed update, broken condition in RawExpr
			b := NewBinder()
			in.UpdateExpression = aws.String(cmd.Upd.Render(b))
			in.ConditionExpression = strp(cmd.RawExpr)
			for k, v := range b.Values {
				if vals == nil {
					vals = map[string]types.AttributeValue{}
				}
				vals[k] = toV2(v)
			}
			in.ExpressionAttributeValues = vals
		}
		_, err = d.cl.UpdateItem(bg, in)
	case "Query":
		_, err = d.cl.Query(bg, &dynamodb.QueryInput{TableName: aws.String(cmd.T), IndexName: strp(cmd.Index), KeyConditionExpression: strp(cmd.RawExpr),
			ExpressionAttributeNames: names, ExpressionAttributeValues: vals})
	case "QueryFilter":
		b := NewBinder()
		kc := renderKeyCond(b, cmd.HashAttr, *cmd.Part, nil)
		for k, v := range b.Values {
			if vals == nil {
				vals = map[string]types.AttributeValue{}
			}
			vals[k] = toV2(v)
		}
		nm := map[string]string{}
		for k, v := range names {
			nm[k] = v
		}
		for k, v := range b.Names {
			nm[k] = v
		}
		_, err = d.cl.Query(bg, &dynamodb.QueryInput{TableName: aws.String(cmd.T), KeyConditionExpression: strp(kc), FilterExpression: strp(cmd.RawExpr),
			ExpressionAttributeNames: nm, ExpressionAttributeValues: vals})
	case "Scan":
		_, err = d.cl.Scan(bg, &dynamodb.ScanInput{TableName: aws.String(cmd.T), FilterExpression: strp(cmd.RawExpr),
			ExpressionAttributeNames: names, ExpressionAttributeValues: vals})
	default:
		panic("bad: unknown base op " + cmd.Base)
	}
	d.classify(err, &o)
	return o
}
