module verif/sim

go 1.20

require (
	github.com/anishathalye/porcupine v1.3.0
	github.com/truora/minidyn v0.0.0
)

replace github.com/truora/minidyn => /repo
