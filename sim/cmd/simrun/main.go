// simrun is the runner of the deterministic simulation: leader (spawns one
// worker process per core, merges their results into the evidence file),
// worker (seeded runs until the time budget is used), replay and debug modes.
package main

import (
	"encoding/binary"
	"encoding/json"
	"flag"
	"fmt"
	"os"
	"os/exec"
	"path/filepath"
	"sort"
	"strings"
	"time"

	"verif/sim"
)

var (
	prop         = flag.String("prop", "", "property id")
	tier         = flag.String("tier", "quick", "quick | thorough")
	seed         = flag.Uint64("seed", 1, "VERIF_SEED")
	workers      = flag.Int("workers", 16, "worker processes")
	budget       = flag.Duration("budget", 30*time.Second, "wall-clock budget of the exploration")
	worker       = flag.Int("worker", -1, "(internal) worker index")
	outDir       = flag.String("workdir", "", "(internal) worker output directory")
	evidence     = flag.String("evidence", "", "evidence file to write")
	replays      = flag.String("replays", "/verif/replays", "directory for replay files")
	known        = flag.String("known", "/verif/KNOWN_FINDINGS.txt", "known findings file")
	replay       = flag.String("replay", "", "replay file to execute")
	one          = flag.Uint64("one", 0, "debug: execute the single run with this run seed and print its trace")
	dumpLog      = flag.Bool("log", false, "debug: print the event log of -one / -replay")
	maxRuns      = flag.Int("runs", 0, "stop after this many runs per worker (0 = budget only)")
	sites        = flag.String("sites", "", "site table written by the rewriter (coverage only)")
	execPlanFile = flag.String("exec-plan", "", "(internal) execute the plan of this replay file, print its event-log hash and failed rules")
	witness      = flag.String("witness", "", "search a witness replay for this known-finding trigger and write it to -evidence")
	detN         = flag.Int("det", 0, "determinism self-test: print seed and log hash of this many runs")
)

func main() {
	flag.Parse()
	sim.Tier = *tier
	switch {
	case *execPlanFile != "":
		os.Exit(doExecPlan())
	case *replay != "":
		os.Exit(doReplay())
	case *one != 0:
		os.Exit(doOne())
	case *detN > 0:
		os.Exit(doDet())
	case *witness != "":
		os.Exit(doWitness())
	case *worker >= 0:
		os.Exit(doWorker())
	default:
		os.Exit(doLeader())
	}
}

func fatal(format string, a ...any) int {
	fmt.Fprintf(os.Stderr, "simrun: "+format+"\n", a...)
	return 2
}

func profile() *sim.Profile {
	loadSites()
	if *prop == "C11" {
		return &sim.Profile{Prop: "C11"}
	}
	p := sim.ProfileFor(*prop)
	if p == nil {
		fmt.Fprintf(os.Stderr, "simrun: no step-atomic check for property %q\n", *prop)
		os.Exit(2)
	}
	return p
}

func loadSites() {
	if *sites == "" {
		return
	}
	b, err := os.ReadFile(*sites)
	if err != nil {
		return
	}
	var t struct {
		Sites []struct {
			ID   uint32 `json:"id"`
			File string `json:"file"`
			Line int    `json:"line"`
			Func string `json:"func"`
			Det  string `json:"detail"`
		} `json:"sites"`
	}
	if json.Unmarshal(b, &t) != nil {
		return
	}
	sim.SiteNames = map[uint32]string{}
	for _, s := range t.Sites {
		sim.SiteNames[s.ID] = fmt.Sprintf("%s:%d (%s %s)", s.File, s.Line, s.Func, s.Det)
	}
}

// generate runs one seeded run of the property: step-atomic or concurrent.
func generate(p *sim.Profile, rs uint64) (*sim.Plan, *sim.RunResult, bool, []string, string) {
	if p.Prop == "C11" {
		plan, scen := sim.ConcPlanFor(rs)
		cr := sim.ExecConc(plan)
		cr.RunResult.Probes = map[string]int{"scenario-" + scen: 1, "porcupine-" + cr.Porcupine: 1, "ops": len(cr.History)}
		cr.RunResult.Faults = map[string]int{"context-switches": len(cr.Sched.Decisions), "sched-mode-" + fmt.Sprint(plan.Sched.Mode): 1}
		cr.RunResult.States = map[string]bool{}
		return plan, &cr.RunResult, false, sim.ConcTrace(plan, cr), fmt.Sprintf("%x", cr.Sched.SwitchSig)
	}
	plan, res, g := sim.Generate(p, rs)
	return plan, res, g.Cfg.FaultFree, nil, ""
}

func execPlan(p *sim.Plan) (*sim.RunResult, []string, string) {
	if len(p.Tasks) > 0 {
		cr := sim.ExecConc(p)
		return &cr.RunResult, sim.ConcTrace(p, cr), ""
	}
	res, eng := sim.ExecPlan(p)
	return res, sim.Trace(res), eng.Log()
}

func minimise(p *sim.Plan, rule string, keep func(*sim.Plan, *sim.RunResult) bool) (*sim.Plan, int) {
	if len(p.Tasks) > 0 {
		return sim.MinimiseConc(p, rule, 300, keep)
	}
	return sim.Minimise(p, rule, 400, keep)
}

func doOne() int {
	p := profile()
	loadKnown(*known, *prop)
	if p.Prop == "C11" {
		plan, res, _, tr, _ := generate(p, *one)
		b, _ := json.Marshal(plan.Sched)
		fmt.Printf("run seed %d sched %s\n", *one, b)
		for _, l := range tr {
			fmt.Println(l)
		}
		fmt.Printf("fails=%v quiet=%q loghash=%s\n", res.Fails, res.Quiet, res.LogHash)
		return 0
	}
	plan, res, g := sim.Generate(p, *one)
	b, _ := json.Marshal(g.Cfg)
	fmt.Printf("run seed %d cfg %s\nworld %+v\n", *one, b, *plan.World)
	for _, l := range sim.Trace(res) {
		fmt.Println(l)
	}
	fmt.Printf("fails=%v other=%q quiet=%q steps=%d loghash=%s\n", res.Fails, res.OtherRule, res.Quiet, res.NSteps, res.LogHash)
	for _, f := range res.OtherFails {
		fmt.Printf("  other: %s: %s\n", f.Rule, f.Msg)
	}
	return 0
}

// doWitness searches a minimised violation that a listed finding's trigger
// classifies, and writes it as that finding's witness replay.
func doWitness() int {
	sim.WitnessMode = true
	p := profile()
	kf := loadKnown(*known, *prop)
	sim.ForceNoAvoid = true
	for r := 0; r < 200000; r++ {
		rs := sim.Mix(*seed, 999, uint64(r))
		plan, res, _ := sim.Generate(p, rs)
		if len(res.Fails) == 0 {
			continue
		}
		minp, _ := sim.Minimise(plan, res.Fails[0].Rule, 400, nil)
		mres, _ := sim.ExecPlan(minp)
		if len(mres.Fails) == 0 {
			continue
		}
		for _, k := range kf {
			if k.trigger == *witness && sim.Trigger(k.trigger, minp, mres) {
				hit := false
				for _, f := range mres.Fails {
					hit = hit || f.Rule == k.rule
				}
				if !hit {
					continue
				}
				path, err := sim.WriteReplay(filepath.Dir(*evidence), minp, mres, "witness", len(plan.Cmds), "rule="+k.rule+" "+k.desc, 0)
				if err != nil {
					return fatal("%v", err)
				}
				if err := os.Rename(path, *evidence); err != nil {
					return fatal("%v", err)
				}
				fmt.Println("witness written:", *evidence)
				for _, l := range sim.Trace(mres) {
					fmt.Println(l)
				}
				return 0
			}
		}
	}
	return fatal("no witness found")
}

func doDet() int {
	p := profile()
	loadKnown(*known, *prop)
	for r := 0; r < *detN; r++ {
		rs := sim.Mix(*seed, 0, uint64(r))
		_, res, _, _, _ := generate(p, rs)
		fmt.Printf("%d %s %d %v %q %q\n", rs, res.LogHash, res.NSteps, sim.FailRules(res), res.OtherRule, res.Quiet)
	}
	return 0
}

func doReplay() int {
	rp, err := sim.ReadReplay(*replay)
	if err != nil {
		return fatal("%v", err)
	}
	*prop = rp.Property
	profile()
	loadKnown(*known, *prop)
	sim.WitnessMode = rp.Known != ""
	res, tr, logText := execPlan(&rp.Plan)
	if *dumpLog {
		fmt.Print(logText)
	}
	for _, l := range tr {
		fmt.Println(l)
	}
	want := strings.Split(rp.Rule, ",")
	got := sim.FailRules(res)
	ok := len(res.Fails) > 0
	for _, w := range want {
		found := false
		for _, g := range got {
			if g == w {
				found = true
			}
		}
		ok = ok && found
	}
	if !ok {
		fmt.Printf("REPLAY-MISMATCH expected rules %v, got %v\n", want, got)
		return 2
	}
	if rp.EventLogSHA != "" && rp.EventLogSHA != res.LogHash {
		fmt.Printf("REPLAY-MISMATCH same rule but event log hash differs: %s vs %s\n", rp.EventLogSHA, res.LogHash)
		return 2
	}
	for _, f := range res.Fails {
		fmt.Printf("  %s: %s\n", f.Rule, f.Msg)
	}
	if rp.Known != "" {
		fmt.Printf("KNOWN-FINDING: property=%s %s\n", rp.Property, rp.Known)
		return 0
	}
	fmt.Printf("VIOLATION property=%s replay=%s\n", rp.Property, *replay)
	return 1
}

// ---------------------------------------------------------------------------

type violation struct {
	Seed     uint64   `json:"seed"`
	Rules    []string `json:"rules"`
	Replay   string   `json:"replay"`
	Msg      string   `json:"msg"`
	From, To int
	Known    string `json:"known,omitempty"`
}

type summary struct {
	Worker        int               `json:"worker"`
	Runs          int               `json:"runs"`
	Steps         int               `json:"steps"`
	ObsCalls      int               `json:"obs_calls"`
	Nontrivial    int               `json:"nontrivial"`
	FaultFree     int               `json:"fault_free_runs"`
	Other         map[string]int    `json:"ended_by_other_property"`
	Quiet         map[string]int    `json:"ended_quiet"`
	Probes        map[string]int    `json:"probes"`
	Faults        map[string]int    `json:"faults"`
	PokeStats     map[string]int    `json:"poke_locations"`
	States        int               `json:"states"`
	Violations    []violation       `json:"violations"`
	Samples       []json.RawMessage `json:"samples"`
	WallS         float64           `json:"wall_s"`
	MinimiseRun   int               `json:"minimise_runs"`
	MapCalls      uint64            `json:"map_calls"`
	MapPermuted   uint64            `json:"map_permuted"`
	Uncontrolled  uint64            `json:"uncontrolled_map_sites"`
	KnownMet      int               `json:"violations_met"`
	OtherSeeds    []string          `json:"ended_by_other_samples"`
	Recheck       int               `json:"determinism_rechecks"`
	RecheckBad    int               `json:"determinism_mismatches"`
	CrossRunState int               `json:"runs_affected_by_library_state_kept_across_runs"`
	Unreproduced  int               `json:"violations_not_reproduced_in_a_fresh_process"`
}

func doWorker() int {
	p := profile()
	start := time.Now()
	s := summary{Worker: *worker, Other: map[string]int{}, Quiet: map[string]int{}, Probes: map[string]int{}, Faults: map[string]int{}, PokeStats: map[string]int{}}
	planHashes := map[uint64]bool{}
	stateHashes := map[uint64]bool{}
	kf := loadKnown(*known, *prop)
	for r := 0; ; r++ {
		if *maxRuns > 0 && r >= *maxRuns {
			break
		}
		if time.Since(start) > *budget {
			break
		}
		rs := sim.Mix(*seed, uint64(*worker), uint64(r))
		plan, res, faultFree, _, ilv := generate(p, rs)
		s.Runs++
		s.Steps += res.NSteps
		s.ObsCalls += res.ObsCalls
		if faultFree {
			s.FaultFree++
		}
		if ilv != "" {
			stateHashes[sim.Hash64(ilv)] = true
		}
		for k, v := range res.Probes {
			s.Probes[k] += v
		}
		for k, v := range res.Faults {
			s.Faults[k] += v
		}
		for sig := range res.States {
			stateHashes[sim.Hash64(sig)] = true
		}
		if res.OtherRule != "" {
			s.Other[res.OtherRule]++
			if s.Other[res.OtherRule] <= 2 {
				s.OtherSeeds = append(s.OtherSeeds, fmt.Sprintf("%s run-seed=%d", res.OtherRule, rs))
			}
		}
		if res.Quiet != "" {
			s.Quiet[res.Quiet]++
		}
		if sim.Nontrivial(*prop, res) {
			b, _ := json.Marshal(plan.Cmds)
			b2, _ := json.Marshal(plan.Tasks)
			h := sim.Hash64(string(b) + string(b2) + ilv)
			if !planHashes[h] {
				planHashes[h] = true
				s.Nontrivial++
			}
			if len(s.Samples) < 2 && len(plan.Cmds) <= 14 {
				_, trc, _ := execPlan(plan)
				tr, _ := json.Marshal(trc)
				s.Samples = append(s.Samples, tr)
			}
		}
		// continuing determinism guard: re-execute 1% of the runs as plans
		if r%100 == 7 && len(res.Fails) == 0 {
			s.Recheck++
			r2, _, _ := execPlan(plan)
			if r2.LogHash != res.LogHash {
				// different in this process: state the library keeps across runs
				// (a process-wide cache changes how many statements a call executes,
				// hence where the scheduler pre-empts), or a harness bug? Two fresh
				// processes decide.
				h1, _, e1 := freshExec(plan)
				h2, _, e2 := freshExec(plan)
				if e1 != nil || e2 != nil || h1 != h2 {
					s.RecheckBad++
				} else {
					s.CrossRunState++
				}
			}
		}
		if len(res.Fails) > 0 {
			rule := res.Fails[0].Rule
			// the shrunk plan must stay on the same side of the known-findings list
			kn0 := kf.classify(plan, res)
			if kn0 != "" {
				// a listed finding this worker has already written a replay for:
				// counted, not minimised again
				again := false
				for _, v := range s.Violations {
					again = again || v.Known == kn0
				}
				if again {
					s.KnownMet++
					continue
				}
			}
			minp, runs := minimise(plan, rule, func(c *sim.Plan, r *sim.RunResult) bool { return kf.classify(c, r) == kn0 })
			s.MinimiseRun += runs
			mres, mtrace, _ := execPlan(minp)
			if len(mres.Fails) == 0 {
				mres, minp = res, plan
				_, mtrace, _ = execPlan(plan)
			}
			// every violation is confirmed in a fresh process before it is reported
			// (what a later `check replay` will see); if the minimised plan does not
			// fail there, the original one is tried; if neither does, nothing is reported
			if _, rules, err := freshExec(minp); err != nil || !hasRule(rules, rule) {
				if _, rules0, err0 := freshExec(plan); err0 == nil && hasRule(rules0, rule) {
					minp, mres = plan, res
					_, mtrace, _ = execPlan(plan)
				} else {
					s.Unreproduced++
					continue
				}
			}
			kn := kf.classify(minp, mres)
			unknown, sameKnown := 0, 0
			for _, v := range s.Violations {
				if v.Known == "" {
					unknown++
				} else if v.Known == kn {
					sameKnown++
				}
			}
			s.KnownMet++
			if kn == "" || sameKnown < 1 {
				path, err := sim.WriteReplayTrace(*replays, minp, mres, mtrace, *tier, len(plan.Cmds)+countTasks(plan), kn, *worker)
				if err != nil {
					return fatal("%v", err)
				}
				s.Violations = append(s.Violations, violation{Seed: rs, Rules: sim.FailRules(mres), Replay: path, Msg: mres.Fails[0].Msg, From: len(plan.Cmds), To: len(minp.Cmds), Known: kn})
			}
			if kn == "" && unknown+1 >= 2 {
				break
			}
		}
	}
	s.States = len(stateHashes)
	s.WallS = time.Since(start).Seconds()
	s.MapCalls, s.MapPermuted, s.Uncontrolled = sim.MapStats()
	b, _ := json.Marshal(s)
	if err := os.WriteFile(filepath.Join(*outDir, fmt.Sprintf("w%d.json", *worker)), b, 0o644); err != nil {
		return fatal("%v", err)
	}
	writeHashes(filepath.Join(*outDir, fmt.Sprintf("w%d.plans", *worker)), planHashes)
	writeHashes(filepath.Join(*outDir, fmt.Sprintf("w%d.states", *worker)), stateHashes)
	return 0
}

// freshExec executes a plan in a fresh process (no state left in the library's
// package-level variables by earlier runs of this worker) and returns its
// event-log hash and the rules that failed.
func freshExec(p *sim.Plan) (hash string, rules []string, err error) {
	f, err := os.CreateTemp("", "plan-*.json")
	if err != nil {
		return "", nil, err
	}
	defer os.Remove(f.Name())
	b, _ := json.Marshal(&sim.Replay{Plan: *p})
	_, _ = f.Write(b)
	_ = f.Close()
	self, _ := os.Executable()
	out, err := exec.Command(self, "-exec-plan", f.Name(), "-known", *known, "-sites", *sites, "-tier", *tier).Output()
	if err != nil {
		return "", nil, err
	}
	fields := strings.Fields(strings.TrimSpace(string(out)))
	if len(fields) == 0 {
		return "", nil, fmt.Errorf("no output")
	}
	return fields[0], fields[1:], nil
}

func doExecPlan() int {
	rp, err := sim.ReadReplay(*execPlanFile)
	if err != nil {
		return fatal("%v", err)
	}
	*prop = rp.Property
	profile()
	loadKnown(*known, *prop)
	res, _, _ := execPlan(&rp.Plan)
	fmt.Println(res.LogHash, strings.Join(sim.FailRules(res), " "))
	return 0
}

func hasRule(rules []string, rule string) bool {
	for _, r := range rules {
		if r == rule {
			return true
		}
	}
	return false
}

func countTasks(p *sim.Plan) int {
	n := 0
	for _, t := range p.Tasks {
		n += len(t)
	}
	return n
}

func writeHashes(path string, m map[uint64]bool) {
	buf := make([]byte, 0, 8*len(m))
	for h := range m {
		buf = binary.LittleEndian.AppendUint64(buf, h)
	}
	_ = os.WriteFile(path, buf, 0o644)
}

func readHashes(path string, into map[uint64]bool) {
	b, err := os.ReadFile(path)
	if err != nil {
		return
	}
	for i := 0; i+8 <= len(b); i += 8 {
		into[binary.LittleEndian.Uint64(b[i:])] = true
	}
}

// replayWitnesses re-executes the witness of every finding listed for the
// property and reports the ones that still fail.
func replayWitnesses() (confirmed []string) {
	sim.WitnessMode = true
	defer func() { sim.WitnessMode = false }()
	for _, k := range loadKnown(*known, *prop) {
		if k.witness == "" {
			continue
		}
		path := k.witness
		if !filepath.IsAbs(path) {
			path = filepath.Join(filepath.Dir(*known), path)
		}
		rp, err := sim.ReadReplay(path)
		if err != nil {
			fmt.Printf("note: witness %s of a listed finding cannot be read: %v\n", k.witness, err)
			continue
		}
		res, _, _ := execPlan(&rp.Plan)
		still := false
		for _, f := range res.Fails {
			still = still || f.Rule == k.rule
		}
		if still {
			fmt.Printf("KNOWN-FINDING: property=%s rule=%s %s (witness %s)\n", *prop, k.rule, k.desc, k.witness)
			confirmed = append(confirmed, k.rule+" "+k.witness)
		} else {
			fmt.Printf("note: listed finding no longer reproduces from its witness %s (rule %s)\n", k.witness, k.rule)
		}
	}
	return confirmed
}

func doLeader() int {
	profile()
	if *prop == "C11" {
		sim.RuleTextC11()
	}
	start := time.Now()
	witnessed := replayWitnesses()
	dir, err := os.MkdirTemp("", "simrun-")
	if err != nil {
		return fatal("%v", err)
	}
	defer os.RemoveAll(dir)
	self, _ := os.Executable()
	fmt.Printf("property=%s tier=%s VERIF_SEED=%d workers=%d budget=%s\n", *prop, *tier, *seed, *workers, *budget)
	type proc struct {
		cmd *exec.Cmd
		out *strings.Builder
	}
	var procs []proc
	for i := 0; i < *workers; i++ {
		c := exec.Command(self, "-prop", *prop, "-tier", *tier, "-seed", fmt.Sprint(*seed), "-worker", fmt.Sprint(i), "-workdir", dir,
			"-budget", budget.String(), "-replays", *replays, "-known", *known, "-runs", fmt.Sprint(*maxRuns), "-sites", *sites)
		if os.Getenv("GOMAXPROCS") == "" {
			// one simulated task runs at a time: more threads per worker only
			// oversubscribe the cores with collector work
			c.Env = append(os.Environ(), "GOMAXPROCS=2")
		}
		sb := &strings.Builder{}
		c.Stdout, c.Stderr = sb, sb
		if err := c.Start(); err != nil {
			return fatal("start worker: %v", err)
		}
		procs = append(procs, proc{c, sb})
	}
	trouble := 0
	for i, p := range procs {
		done := make(chan error, 1)
		go func() { done <- p.cmd.Wait() }()
		select {
		case err := <-done:
			if err != nil {
				trouble++
				fmt.Fprintf(os.Stderr, "worker %d: %v\n%s\n", i, err, tail(p.out.String(), 40))
			}
		case <-time.After(*budget*3 + 120*time.Second):
			_ = p.cmd.Process.Kill()
			trouble++
			fmt.Fprintf(os.Stderr, "worker %d: killed by the watchdog\n", i)
		}
	}
	if trouble == len(procs) {
		return fatal("every worker failed")
	}
	total := summary{Other: map[string]int{}, Quiet: map[string]int{}, Probes: map[string]int{}, Faults: map[string]int{}, PokeStats: map[string]int{}}
	plans, states := map[uint64]bool{}, map[uint64]bool{}
	for i := 0; i < *workers; i++ {
		b, err := os.ReadFile(filepath.Join(dir, fmt.Sprintf("w%d.json", i)))
		if err != nil {
			continue
		}
		var s summary
		if json.Unmarshal(b, &s) != nil {
			continue
		}
		total.Runs += s.Runs
		total.Steps += s.Steps
		total.ObsCalls += s.ObsCalls
		total.FaultFree += s.FaultFree
		total.MinimiseRun += s.MinimiseRun
		total.MapCalls += s.MapCalls
		total.MapPermuted += s.MapPermuted
		total.Uncontrolled += s.Uncontrolled
		total.Recheck += s.Recheck
		total.RecheckBad += s.RecheckBad
		total.CrossRunState += s.CrossRunState
		total.Unreproduced += s.Unreproduced
		for k, v := range s.Other {
			total.Other[k] += v
		}
		for k, v := range s.Quiet {
			total.Quiet[k] += v
		}
		for k, v := range s.Probes {
			total.Probes[k] += v
		}
		for k, v := range s.Faults {
			total.Faults[k] += v
		}
		total.Violations = append(total.Violations, s.Violations...)
		for _, o := range s.OtherSeeds {
			if len(total.OtherSeeds) < 40 {
				total.OtherSeeds = append(total.OtherSeeds, o)
			}
		}
		if len(total.Samples) < 3 {
			total.Samples = append(total.Samples, s.Samples...)
		}
		readHashes(filepath.Join(dir, fmt.Sprintf("w%d.plans", i)), plans)
		readHashes(filepath.Join(dir, fmt.Sprintf("w%d.states", i)), states)
	}
	wall := time.Since(start).Seconds()
	if total.RecheckBad > 0 {
		return fatal("determinism guard: %d of %d re-executed runs produced a different event log", total.RecheckBad, total.Recheck)
	}
	// verdict
	sort.Slice(total.Violations, func(i, j int) bool { return total.Violations[i].Replay < total.Violations[j].Replay })
	unknown := 0
	knownSeen := map[string]bool{}
	_ = witnessed
	for _, v := range total.Violations {
		if v.Known != "" {
			if !knownSeen[v.Known] {
				knownSeen[v.Known] = true
				fmt.Printf("known finding met again by the exploration: %s (replay %s)\n", v.Known, v.Replay)
			}
			continue
		}
		unknown++
		fmt.Printf("VIOLATION property=%s replay=%s\n", *prop, v.Replay)
		fmt.Printf("  rules=%v seed=%d minimised %d -> %d commands: %s\n", v.Rules, v.Seed, v.From, v.To, v.Msg)
	}
	if *evidence != "" {
		if err := writeEvidence(*evidence, &total, len(plans), len(states), wall, unknown); err != nil {
			return fatal("%v", err)
		}
	}
	fmt.Printf("runs=%d steps=%d distinct_nontrivial=%d states=%d ended_by_other=%v quiet=%d wall=%.1fs\n", total.Runs, total.Steps, len(plans), len(states), total.Other, sumMap(total.Quiet), wall)
	if unknown > 0 {
		return 1
	}
	return 0
}

func sumMap(m map[string]int) int {
	n := 0
	for _, v := range m {
		n += v
	}
	return n
}

func tail(s string, n int) string {
	l := strings.Split(s, "\n")
	if len(l) > n {
		l = l[len(l)-n:]
	}
	return strings.Join(l, "\n")
}

func writeEvidence(path string, t *summary, nPlans, nStates int, wall float64, violations int) error {
	var samples []any
	for _, s := range t.Samples {
		var v any
		_ = json.Unmarshal(s, &v)
		samples = append(samples, v)
	}
	if len(samples) == 0 {
		samples = append(samples, "no run of this batch was short enough to print in full (plans of up to 14 commands are sampled)")
	}
	perHour := 0.0
	if wall > 0 {
		perHour = float64(t.Runs) / wall * 3600
	}
	cov := map[string]any{
		"evaluations":                t.Runs,
		"distinct_nontrivial":        nPlans,
		"rule":                       sim.RuleText(*prop),
		"samples":                    samples,
		"states":                     nStates,
		"transitions":                t.Steps,
		"seed":                       *seed,
		"runs_per_hour":              perHour,
		"seeds_per_hour":             perHour,
		"logical_steps":              t.Steps,
		"simulated_time":             "none: the library has no clock; time is counted in logical steps",
		"observer_calls":             t.ObsCalls,
		"fault_free_runs":            t.FaultFree,
		"faults_fired":               t.Faults,
		"reach_probes":               t.Probes,
		"ended_by_other_property":    t.Other,
		"ended_by_other_samples":     t.OtherSeeds,
		"ended_without_verdict":      t.Quiet,
		"map_range_calls_controlled": t.MapCalls,
		"map_range_calls_permuted":   t.MapPermuted,
		"uncontrolled_map_sites":     t.Uncontrolled,
		"determinism_rechecks":       t.Recheck,
		"runs_affected_by_library_state_kept_across_runs": t.CrossRunState,
		"violations_not_reproduced_in_a_fresh_process":    t.Unreproduced,
		"minimiser_runs":       t.MinimiseRun,
		"real_components":      []string{"aws-v1/client", "aws-v2/client", "core", "interpreter", "interpreter/language", "types", "AWS SDK request types and validators"},
		"simulated_components": []string{"map iteration order (simrt.MapKeys)", "mutex ownership (simrt.Lock/Unlock)", "interleaving of callers at call granularity (engine actors)", "caller memory reuse (pokes)"},
		"fault_kinds_absent":   []string{"network", "disk", "clock", "allocation failure (the library has none of these)"},
	}
	var kn []string
	for _, v := range t.Violations {
		if v.Known != "" {
			kn = append(kn, v.Known)
		}
	}
	cov["known_findings_confirmed"] = kn
	ev := map[string]any{
		"property_id": *prop,
		"tier":        *tier,
		"seed":        *seed,
		"level":       "exploration",
		"coverage":    cov,
		"assumptions": []string{
			"the reference model (sim/model.go, sim/expr.go) states DynamoDB's behaviour for the workload fragment of DESIGN.md appendix A",
			"verdicts are black-box: only values returned by the public API are compared",
			"a clean batch is evidence, not proof: bounds are small by design",
		},
		"wall_s":     wall,
		"violations": violations,
	}
	b, err := json.MarshalIndent(ev, "", " ")
	if err != nil {
		return err
	}
	if err := os.MkdirAll(filepath.Dir(path), 0o755); err != nil {
		return err
	}
	return os.WriteFile(path, b, 0o644)
}
