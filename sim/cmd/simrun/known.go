package main

import (
	"bufio"
	"os"
	"strings"

	"verif/sim"
)

// knownFindings is the committed list of defects that are recorded rather than
// repaired (/verif/KNOWN_FINDINGS.txt). It is never written at run time.
// A line: finding: property=C19 rule=C19.get trigger=<name> <description>
type knownFinding struct {
	prop, rule, trigger, witness, desc string
}

type knownSet []knownFinding

func loadKnown(path, prop string) knownSet {
	f, err := os.Open(path)
	if err != nil {
		return nil
	}
	defer f.Close()
	var ks knownSet
	sc := bufio.NewScanner(f)
	for sc.Scan() {
		line := strings.TrimSpace(sc.Text())
		if !strings.HasPrefix(line, "finding:") {
			continue
		}
		k := knownFinding{}
		rest := strings.Fields(strings.TrimPrefix(line, "finding:"))
		var desc []string
		for _, w := range rest {
			switch {
			case strings.HasPrefix(w, "property=") && k.prop == "":
				k.prop = strings.TrimPrefix(w, "property=")
			case strings.HasPrefix(w, "rule=") && k.rule == "":
				k.rule = strings.TrimPrefix(w, "rule=")
			case strings.HasPrefix(w, "trigger=") && k.trigger == "":
				k.trigger = strings.TrimPrefix(w, "trigger=")
			case strings.HasPrefix(w, "witness=") && k.witness == "":
				k.witness = strings.TrimPrefix(w, "witness=")
			default:
				desc = append(desc, w)
			}
		}
		k.desc = strings.Join(desc, " ")
		sim.KnownTriggers[k.trigger] = true
		if k.prop == prop {
			ks = append(ks, k)
		}
	}
	return ks
}

// classify returns the description of the listed finding that the minimised
// violation is an instance of, or "".
func (ks knownSet) classify(p *sim.Plan, r *sim.RunResult) string {
	if len(r.Fails) == 0 {
		return ""
	}
	for _, k := range ks {
		ruleHit := false
		for _, f := range r.Fails {
			if f.Rule == k.rule {
				ruleHit = true
			}
		}
		if !ruleHit {
			continue
		}
		if sim.Trigger(k.trigger, p, r) {
			return "rule=" + k.rule + " " + k.desc
		}
	}
	return ""
}
