package sim

import (
	"context"
	"errors"
	"fmt"
	"strings"

	"github.com/aws/aws-sdk-go/aws"
	"github.com/aws/aws-sdk-go/aws/awserr"
	"github.com/aws/aws-sdk-go/service/dynamodb"
	v1 "github.com/truora/minidyn/aws-v1/client"
	"github.com/truora/minidyn/interpreter"
	"github.com/truora/minidyn/simrt"
	mtypes "github.com/truora/minidyn/types"
)

// V1 drives aws-v1/client.
var bg1 = context.Background()

type V1 struct {
	cl      *v1.Client
	retain  bool
	kept    map[int]*retained
	walks   map[int]*walkV1
	stats   map[string]int
	lastLEK map[string]*dynamodb.AttributeValue
}

type walkV1 struct {
	open *Cmd
	lek  map[string]*dynamodb.AttributeValue
	done bool
}

func NewV1(retain bool) *V1 {
	return &V1{cl: v1.NewClient(), retain: retain, kept: map[int]*retained{}, walks: map[int]*walkV1{}, stats: map[string]int{}}
}

func (d *V1) SDK() string               { return "v1" }
func (d *V1) PokeStats() map[string]int { return d.stats }

func strps(ss []string) []*string {
	out := make([]*string, len(ss))
	for i := range ss {
		s := ss[i]
		out[i] = &s
	}
	return out
}

func toV1(v AV) *dynamodb.AttributeValue {
	switch v.T {
	case "S":
		return &dynamodb.AttributeValue{S: aws.String(v.S)}
	case "N":
		return &dynamodb.AttributeValue{N: aws.String(v.S)}
	case "B":
		return &dynamodb.AttributeValue{B: append([]byte{}, v.B...)}
	case "BOOL":
		return &dynamodb.AttributeValue{BOOL: aws.Bool(v.Bool)}
	case "NULL":
		return &dynamodb.AttributeValue{NULL: aws.Bool(true)}
	case "L":
		l := make([]*dynamodb.AttributeValue, len(v.L))
		for i, e := range v.L {
			l[i] = toV1(e)
		}
		return &dynamodb.AttributeValue{L: l}
	case "M":
		m := make(map[string]*dynamodb.AttributeValue, len(v.M))
		for k, e := range v.M {
			m[k] = toV1(e)
		}
		return &dynamodb.AttributeValue{M: m}
	case "SS":
		return &dynamodb.AttributeValue{SS: strps(v.SS)}
	case "NS":
		return &dynamodb.AttributeValue{NS: strps(v.SS)}
	case "BS":
		b := make([][]byte, len(v.BS))
		for i, e := range v.BS {
			b[i] = append([]byte{}, e...)
		}
		return &dynamodb.AttributeValue{BS: b}
	}
	panic("toV1: bad type " + v.T)
}

func itemToV1(it Item) map[string]*dynamodb.AttributeValue {
	if it == nil {
		return nil
	}
	m := make(map[string]*dynamodb.AttributeValue, len(it))
	for k, v := range it {
		m[k] = toV1(v)
	}
	return m
}

func strvs(ps []*string) []string {
	out := make([]string, len(ps))
	for i, p := range ps {
		if p != nil {
			out[i] = *p
		}
	}
	return out
}

func fromV1(a *dynamodb.AttributeValue) AV {
	switch {
	case a == nil:
		return AV{T: "?"}
	case a.S != nil:
		return S(*a.S)
	case a.N != nil:
		return N(*a.N)
	case a.BOOL != nil:
		return Bool(*a.BOOL)
	case a.NULL != nil:
		if !*a.NULL {
			return AV{T: "NULL", Bool: true} // NULL:false - not a valid value; keeps it distinguishable
		}
		return Null()
	case a.B != nil:
		return AV{T: "B", B: append([]byte{}, a.B...)}
	case a.M != nil:
		m := make(map[string]AV, len(a.M))
		for k, e := range a.M {
			m[k] = fromV1(e)
		}
		return AV{T: "M", M: m}
	case a.L != nil:
		l := make([]AV, len(a.L))
		for i, e := range a.L {
			l[i] = fromV1(e)
		}
		return AV{T: "L", L: l}
	case a.SS != nil:
		return AV{T: "SS", SS: strvs(a.SS)}
	case a.NS != nil:
		return AV{T: "NS", SS: strvs(a.NS)}
	case a.BS != nil:
		b := make([][]byte, len(a.BS))
		for i, e := range a.BS {
			b[i] = append([]byte{}, e...)
		}
		return AV{T: "BS", BS: b}
	}
	return AV{T: "?"}
}

func itemFromV1(m map[string]*dynamodb.AttributeValue) Item {
	if len(m) == 0 {
		return nil
	}
	it := make(Item, len(m))
	for k, v := range m {
		it[k] = fromV1(v)
	}
	return it
}

func (d *V1) classify(err error, o *Outcome) {
	if err == nil {
		o.Class = "ok"
		return
	}
	o.Err = scrub(err.Error())
	if errors.Is(err, v1.ErrForcedFailure) {
		o.Class = "forced"
		return
	}
	var ae awserr.Error
	var ce coder
	switch {
	case errors.As(err, &ae):
		o.Class = classifyCode(ae.Code())
	case errors.As(err, &ce):
		o.Class = classifyCode(ce.Code())
	case errors.Is(err, interpreter.ErrUnsupportedFeature):
		o.Class = "other:unsupported"
	case errors.Is(err, interpreter.ErrSyntaxError):
		o.Class = "other:syntax"
	default:
		o.Class = "other:unclassified"
	}
}

func (d *V1) keepIn(id int, label string, v any) {
	if !d.retain || v == nil || id < 0 {
		return
	}
	r := d.kept[id]
	if r == nil {
		r = &retained{}
		d.kept[id] = r
	}
	r.in = append(r.in, root{label, v})
}

func (d *V1) keepOut(label string, v any) {
	if !d.retain || v == nil || curID < 0 {
		return
	}
	r := d.kept[curID]
	if r == nil {
		r = &retained{}
		d.kept[curID] = r
	}
	r.out = append(r.out, root{label, v})
	r.outCanon = append(r.outCanon, rootCanon(v))
}

// Exec translates and runs one command.
func (d *V1) Exec(cmd *Cmd) (o Outcome) {
	curID = cmd.ID
	defer func() {
		if r := recover(); r != nil {
			if simrt.IsAbort(r) {
				panic(r)
			}
			o = Outcome{}
			o.Class, o.Err = classifyPanic(r)
		}
	}()
	switch cmd.Op {
	case "Create":
		return d.create(cmd)
	case "Drop":
		din := &dynamodb.DeleteTableInput{TableName: aws.String(cmd.T)}
		out, err := func() (*dynamodb.DeleteTableOutput, error) {
			if cmd.ID%2 == 1 {
				return d.cl.DeleteTableWithContext(bg1, din)
			}
			return d.cl.DeleteTable(din)
		}()
		d.classify(err, &o)
		if err == nil {
			o.Desc = descFromV1(out.TableDescription)
		}
	case "Clear":
		d.classify(v1.ClearTable(d.cl, cmd.T), &o)
	case "Describe":
		din := &dynamodb.DescribeTableInput{TableName: aws.String(cmd.T)}
		out, err := func() (*dynamodb.DescribeTableOutput, error) {
			// (observer reads carry the id -1: the context variant too)
			if cmd.ID%2 != 0 {
				return d.cl.DescribeTableWithContext(bg1, din)
			}
			return d.cl.DescribeTable(din)
		}()
		d.classify(err, &o)
		if err == nil {
			o.Desc = descFromV1(out.Table)
		}
	case "IndexCreate":
		return d.indexCreate(cmd)
	case "IndexDrop":
		uin := &dynamodb.UpdateTableInput{TableName: aws.String(cmd.T),
			GlobalSecondaryIndexUpdates: []*dynamodb.GlobalSecondaryIndexUpdate{{Delete: &dynamodb.DeleteGlobalSecondaryIndexAction{IndexName: aws.String(cmd.Index)}}}}
		out, err := func() (*dynamodb.UpdateTableOutput, error) {
			if cmd.ID%2 == 1 {
				return d.cl.UpdateTableWithContext(bg1, uin)
			}
			return d.cl.UpdateTable(uin)
		}()
		d.classify(err, &o)
		if err == nil {
			o.Desc = descFromV1(out.TableDescription)
		}
	case "Toggle":
		switch cmd.Entry {
		case "active":
			v1.ActiveForceFailure(d.cl)
		case "deactive":
			v1.DeactiveForceFailure(d.cl)
		default:
			v1.EmulateFailure(d.cl, v1.FailureCondition(cmd.Fail))
		}
		o.Class = "ok"
	case "Put":
		return d.put(cmd)
	case "Get":
		return d.get(cmd)
	case "Delete":
		return d.del(cmd)
	case "Update":
		return d.update(cmd)
	case "Query", "Scan":
		return d.search(cmd, cmd, nil)
	case "Open":
		w := &walkV1{open: cmd}
		d.walks[cmd.Walk] = w
		o = d.search(cmd, cmd, nil)
		w.step(o, d.lastLEK)
	case "Resume":
		w := d.walks[cmd.Walk]
		if w == nil || w.done {
			return Outcome{Class: "skipped"}
		}
		o = d.search(cmd, w.open, w.lek)
		w.step(o, d.lastLEK)
	case "BatchWrite":
		return d.batchWrite(cmd)
	case "BatchGet":
		return d.batchGet(cmd)
	case "Transact":
		_, err := d.cl.TransactWriteItems(&dynamodb.TransactWriteItemsInput{})
		d.classify(err, &o)
	case "Native":
		if cmd.Native == "activate" {
			d.cl.ActivateNativeInterpreter()
		}
		if cmd.Native == "reset" {
			d.cl.SetInterpreter(interpreter.NewNativeInterpreter())
		}
		if cmd.Native == "debug" {
			d.cl.ActivateDebug()
		}
		if cmd.Native == "metrics" {
			v1.SetItemCollectionMetrics(d.cl, map[string][]*dynamodb.ItemCollectionMetrics{})
		}
		if cmd.Native == "updater-panic" {
			d.cl.GetNativeInterpreter().AddUpdater(cmd.T, UpdText(cmd), func(item, _ map[string]*mtypes.Item) {
				s := "partial"
				item["a"] = &mtypes.Item{S: &s}
				panic("harness updater panics on purpose")
			})
		}
		if cmd.Native == "updater-set" {
			d.cl.GetNativeInterpreter().AddUpdater(cmd.T, UpdText(cmd), func(item, _ map[string]*mtypes.Item) {
				s := "native-updater"
				item["a"] = &mtypes.Item{S: &s}
			})
		}
		if cmd.Native == "matcher-panic" {
			d.cl.GetNativeInterpreter().AddMatcher(cmd.T, interpreter.ExpressionTypeFilter, FilterText(cmd), func(_, _ map[string]*mtypes.Item) bool { panic("harness matcher panics on purpose") })
		}
		if cmd.Native == "matcher" {
			verdict := cmd.Verdict
			d.cl.GetNativeInterpreter().AddMatcher(cmd.T, interpreter.ExpressionTypeFilter, FilterText(cmd), func(_, _ map[string]*mtypes.Item) bool { return verdict })
		}
		o.Class = "ok"
	case "Bad":
		return d.bad(cmd)
	default:
		panic("v1 driver: unknown op " + cmd.Op)
	}
	return o
}

func (w *walkV1) step(o Outcome, lek map[string]*dynamodb.AttributeValue) {
	if o.Class != "ok" || len(lek) == 0 {
		w.done = true
		w.lek = nil
		return
	}
	w.lek = lek
}

func keySchemaV1(keys []KeyDef) []*dynamodb.KeySchemaElement {
	ks := []*dynamodb.KeySchemaElement{{AttributeName: aws.String(keys[0].Name), KeyType: aws.String("HASH")}}
	if len(keys) > 1 {
		ks = append(ks, &dynamodb.KeySchemaElement{AttributeName: aws.String(keys[1].Name), KeyType: aws.String("RANGE")})
	}
	return ks
}

func attrDefsV1(m map[string]string) []*dynamodb.AttributeDefinition {
	var out []*dynamodb.AttributeDefinition
	for _, k := range sortedKeys(m) {
		out = append(out, &dynamodb.AttributeDefinition{AttributeName: aws.String(k), AttributeType: aws.String(m[k])})
	}
	return out
}

func tenUnitsV1() *dynamodb.ProvisionedThroughput {
	return &dynamodb.ProvisionedThroughput{ReadCapacityUnits: aws.Int64(10), WriteCapacityUnits: aws.Int64(10)}
}

func (d *V1) create(cmd *Cmd) (o Outcome) {
	def := cmd.Def
	if cmd.Helper {
		rng := ""
		if def.Range != nil {
			rng = def.Range.Name
		}
		d.classify(v1.AddTable(d.cl, def.Name, def.Hash.Name, rng), &o)
		return o
	}
	in := &dynamodb.CreateTableInput{
		TableName:            aws.String(def.Name),
		AttributeDefinitions: attrDefsV1(def.AttrTypes()),
		KeySchema:            keySchemaV1(def.KeyAttrs()),
	}
	if def.Billing == "PAY_PER_REQUEST" {
		in.BillingMode = aws.String("PAY_PER_REQUEST")
	} else {
		in.BillingMode = aws.String("PROVISIONED")
		in.ProvisionedThroughput = tenUnitsV1()
	}
	for _, ix := range def.Indexes {
		proj := &dynamodb.Projection{ProjectionType: aws.String("ALL")}
		if ix.Kind == "gsi" {
			g := &dynamodb.GlobalSecondaryIndex{IndexName: aws.String(ix.Name), KeySchema: keySchemaV1(ix.KeyAttrs()), Projection: proj}
			if def.Billing != "PAY_PER_REQUEST" {
				g.ProvisionedThroughput = tenUnitsV1()
			}
			in.GlobalSecondaryIndexes = append(in.GlobalSecondaryIndexes, g)
		} else {
			in.LocalSecondaryIndexes = append(in.LocalSecondaryIndexes, &dynamodb.LocalSecondaryIndex{IndexName: aws.String(ix.Name), KeySchema: keySchemaV1(ix.KeyAttrs()), Projection: proj})
		}
	}
	out, err := func() (*dynamodb.CreateTableOutput, error) {
		if cmd.ID%2 == 1 {
			// the context variants of the SDK v1 interface, every other command
			return d.cl.CreateTableWithContext(bg1, in)
		}
		return d.cl.CreateTable(in)
	}()
	d.classify(err, &o)
	if err == nil {
		o.Desc = descFromV1(out.TableDescription)
	}
	return o
}

func (d *V1) indexCreate(cmd *Cmd) (o Outcome) {
	ix := cmd.IdxDef
	if cmd.Helper {
		rng := ""
		if ix.Range != nil {
			rng = ix.Range.Name
		}
		d.classify(v1.AddIndex(d.cl, cmd.T, ix.Name, ix.Hash.Name, rng), &o)
		return o
	}
	defs := map[string]string{}
	for _, k := range ix.KeyAttrs() {
		defs[k.Name] = k.Type
	}
	out, err := d.cl.UpdateTable(&dynamodb.UpdateTableInput{TableName: aws.String(cmd.T), AttributeDefinitions: attrDefsV1(defs),
		GlobalSecondaryIndexUpdates: []*dynamodb.GlobalSecondaryIndexUpdate{{Create: &dynamodb.CreateGlobalSecondaryIndexAction{
			IndexName: aws.String(ix.Name), KeySchema: keySchemaV1(ix.KeyAttrs()),
			Projection: &dynamodb.Projection{ProjectionType: aws.String("ALL")}, ProvisionedThroughput: tenUnitsV1()}}}})
	d.classify(err, &o)
	if err == nil {
		o.Desc = descFromV1(out.TableDescription)
	}
	return o
}

func descFromV1(t *dynamodb.TableDescription) *TableDesc {
	if t == nil {
		return nil
	}
	d := &TableDesc{Name: aws.StringValue(t.TableName), ItemCount: aws.Int64Value(t.ItemCount), Indexes: map[string]string{}, IdxCount: map[string]int64{}}
	d.Keys = schemaFromV1(t.KeySchema)
	for _, g := range t.GlobalSecondaryIndexes {
		n := uniqueIndexName(d, aws.StringValue(g.IndexName))
		d.Indexes[n] = "gsi " + schemaFromV1(g.KeySchema)
		d.IdxCount[n] = -1
		if g.ItemCount != nil {
			d.IdxCount[n] = *g.ItemCount
		}
	}
	for _, l := range t.LocalSecondaryIndexes {
		n := uniqueIndexName(d, aws.StringValue(l.IndexName))
		d.Indexes[n] = "lsi " + schemaFromV1(l.KeySchema)
		d.IdxCount[n] = -1
		if l.ItemCount != nil {
			d.IdxCount[n] = *l.ItemCount
		}
	}
	return d
}

func schemaFromV1(ks []*dynamodb.KeySchemaElement) string {
	s := ""
	for i, k := range ks {
		if i > 0 {
			s += ","
		}
		s += aws.StringValue(k.AttributeName) + ":" + aws.StringValue(k.KeyType)
	}
	return s
}

type exprPartsV1 struct {
	cond, upd, keyc, filter *string
	names                   map[string]*string
	values                  map[string]*dynamodb.AttributeValue
}

func (d *V1) parts(cmd *Cmd, hashName string) exprPartsV1 {
	b := NewBinder()
	var p exprPartsV1
	if cmd.Part != nil {
		p.keyc = strp(renderKeyCond(b, hashName, *cmd.Part, cmd.Sort))
	}
	if cmd.Filter != nil {
		p.filter = strp(cmd.Filter.Render(b))
	}
	if cmd.Upd != nil {
		p.upd = strp(cmd.Upd.Render(b))
	}
	if cmd.Cond != nil {
		p.cond = strp(cmd.Cond.Render(b))
	}
	if len(b.Names) > 0 {
		p.names = aws.StringMap(b.Names)
	}
	if len(b.Values) > 0 {
		p.values = itemToV1(b.Values)
	}
	return p
}

func (d *V1) put(cmd *Cmd) (o Outcome) {
	p := d.parts(cmd, "")
	in := &dynamodb.PutItemInput{TableName: aws.String(cmd.T), Item: itemToV1(cmd.Item), ConditionExpression: p.cond,
		ExpressionAttributeNames: p.names, ExpressionAttributeValues: p.values}
	d.keepIn(cmd.ID, "Item", in.Item)
	d.keepIn(cmd.ID, "Values", p.values)
	out, err := func() (*dynamodb.PutItemOutput, error) {
		if cmd.ID%2 == 1 {
			// the context variants of the SDK v1 interface, every other command
			return d.cl.PutItemWithContext(bg1, in)
		}
		return d.cl.PutItem(in)
	}()
	d.classify(err, &o)
	if err == nil && out != nil {
		d.keepOut("out.Attributes", out.Attributes)
	}
	return o
}

func (d *V1) get(cmd *Cmd) (o Outcome) {
	in := &dynamodb.GetItemInput{TableName: aws.String(cmd.T), Key: itemToV1(fullKey(cmd))}
	if pe, names := projection(cmd); pe != "" {
		in.ProjectionExpression = aws.String(pe)
		if names != nil {
			in.ExpressionAttributeNames = map[string]*string{}
			for k, v := range names {
				in.ExpressionAttributeNames[k] = aws.String(v)
			}
		}
	}
	d.keepIn(cmd.ID, "Key", in.Key)
	out, err := func() (*dynamodb.GetItemOutput, error) {
		if cmd.ID%2 == 1 {
			// the context variants of the SDK v1 interface, every other command
			return d.cl.GetItemWithContext(bg1, in)
		}
		return d.cl.GetItem(in)
	}()
	d.classify(err, &o)
	if err == nil {
		o.Item = itemFromV1(out.Item)
		d.keepOut("out.Item", out.Item)
	}
	return o
}

func (d *V1) del(cmd *Cmd) (o Outcome) {
	p := d.parts(cmd, "")
	in := &dynamodb.DeleteItemInput{TableName: aws.String(cmd.T), Key: itemToV1(fullKey(cmd)), ConditionExpression: p.cond,
		ExpressionAttributeNames: p.names, ExpressionAttributeValues: p.values, ReturnValues: aws.String("ALL_OLD")}
	d.keepIn(cmd.ID, "Key", in.Key)
	d.keepIn(cmd.ID, "Values", p.values)
	out, err := func() (*dynamodb.DeleteItemOutput, error) {
		if cmd.ID%2 == 1 {
			// the context variants of the SDK v1 interface, every other command
			return d.cl.DeleteItemWithContext(bg1, in)
		}
		return d.cl.DeleteItem(in)
	}()
	d.classify(err, &o)
	if err == nil {
		o.Item = itemFromV1(out.Attributes)
		d.keepOut("out.Attributes", out.Attributes)
	}
	return o
}

func (d *V1) update(cmd *Cmd) (o Outcome) {
	p := d.parts(cmd, "")
	in := &dynamodb.UpdateItemInput{TableName: aws.String(cmd.T), Key: itemToV1(fullKey(cmd)), UpdateExpression: p.upd, ConditionExpression: p.cond,
		ExpressionAttributeNames: p.names, ExpressionAttributeValues: p.values, ReturnValues: aws.String("ALL_NEW")}
	if cmd.RetVal != "" {
		in.ReturnValues = aws.String(cmd.RetVal)
	}
	d.keepIn(cmd.ID, "Key", in.Key)
	d.keepIn(cmd.ID, "Values", p.values)
	out, err := func() (*dynamodb.UpdateItemOutput, error) {
		if cmd.ID%2 == 1 {
			// the context variants of the SDK v1 interface, every other command
			return d.cl.UpdateItemWithContext(bg1, in)
		}
		return d.cl.UpdateItem(in)
	}()
	d.classify(err, &o)
	if err == nil {
		o.Item = itemFromV1(out.Attributes)
		d.keepOut("out.Attributes", out.Attributes)
	}
	return o
}

func (d *V1) search(cmd, shape *Cmd, lek map[string]*dynamodb.AttributeValue) (o Outcome) {
	p := d.parts(shape, shape.HashAttr)
	d.lastLEK = nil
	var lim *int64
	if shape.Limit > 0 {
		lim = aws.Int64(int64(shape.Limit))
	}
	var items []map[string]*dynamodb.AttributeValue
	var outLEK map[string]*dynamodb.AttributeValue
	var count int64
	var err error
	d.keepIn(cmd.ID, "Values", p.values)
	d.keepIn(cmd.ID, "ExclusiveStartKey", lek)
	if shape.Part != nil {
		in := &dynamodb.QueryInput{TableName: aws.String(shape.T), IndexName: strp(shape.Index), KeyConditionExpression: p.keyc, FilterExpression: p.filter,
			ExpressionAttributeNames: p.names, ExpressionAttributeValues: p.values, Limit: lim, ExclusiveStartKey: lek}
		if shape.Back {
			in.ScanIndexForward = aws.Bool(false)
		}
		if len(shape.Proj) > 0 {
			in.ProjectionExpression = aws.String(strings.Join(shape.Proj, ", "))
		}
		var out *dynamodb.QueryOutput
		if cmd.ID%2 == 1 {
			out, err = d.cl.QueryWithContext(bg1, in)
		} else {
			out, err = d.cl.Query(in)
		}
		if err == nil {
			items, outLEK, count = out.Items, out.LastEvaluatedKey, aws.Int64Value(out.Count)
		}
	} else {
		in := &dynamodb.ScanInput{TableName: aws.String(shape.T), IndexName: strp(shape.Index), FilterExpression: p.filter,
			ExpressionAttributeNames: p.names, ExpressionAttributeValues: p.values, Limit: lim, ExclusiveStartKey: lek}
		if len(shape.Proj) > 0 {
			in.ProjectionExpression = aws.String(strings.Join(shape.Proj, ", "))
		}
		var out *dynamodb.ScanOutput
		if cmd.ID%2 == 1 {
			out, err = d.cl.ScanWithContext(bg1, in)
		} else {
			out, err = d.cl.Scan(in)
		}
		if err == nil {
			items, outLEK, count = out.Items, out.LastEvaluatedKey, aws.Int64Value(out.Count)
		}
	}
	d.classify(err, &o)
	if err != nil {
		return o
	}
	o.Items = make([]Item, len(items))
	for i, it := range items {
		o.Items[i] = orEmpty(itemFromV1(it))
		d.keepOut(fmt.Sprintf("out.Items[%d]", i), it)
	}
	o.Count = int(count)
	if len(outLEK) > 0 {
		o.LEK = itemFromV1(outLEK)
		d.lastLEK = outLEK
		d.keepOut("out.LastEvaluatedKey", outLEK)
	}
	return o
}

func (d *V1) batchWrite(cmd *Cmd) (o Outcome) {
	req := map[string][]*dynamodb.WriteRequest{}
	same := map[string]*dynamodb.WriteRequest{} // identical puts share one request value, as a caller reusing it would
	for i, r := range cmd.Batch {
		if r.Put != nil && !r.Both {
			if w, ok := same[r.Put.Canon()]; ok {
				req[r.T] = append(req[r.T], w)
				continue
			}
		}
		w := &dynamodb.WriteRequest{}
		if r.Put != nil || r.Both {
			it := itemToV1(r.Put)
			w.PutRequest = &dynamodb.PutRequest{Item: it}
			d.keepIn(cmd.ID, fmt.Sprintf("batch[%d].Item", i), it)
		}
		if r.Del != nil || r.Both {
			k := itemToV1(r.Del)
			w.DeleteRequest = &dynamodb.DeleteRequest{Key: k}
			d.keepIn(cmd.ID, fmt.Sprintf("batch[%d].Key", i), k)
		}
		if r.Put != nil && !r.Both {
			same[r.Put.Canon()] = w
		}
		req[r.T] = append(req[r.T], w)
	}
	bin := &dynamodb.BatchWriteItemInput{RequestItems: req}
	out, err := func() (*dynamodb.BatchWriteItemOutput, error) {
		if cmd.ID%2 == 1 {
			return d.cl.BatchWriteItemWithContext(bg1, bin)
		}
		return d.cl.BatchWriteItem(bin)
	}()
	d.classify(err, &o)
	if err == nil {
		for _, t := range sortedKeys(out.UnprocessedItems) {
			if len(out.UnprocessedItems[t]) == 0 {
				o.UnprocEmpty = append(o.UnprocEmpty, t)
			}
			for _, w := range out.UnprocessedItems[t] {
				r := BatchReq{T: t}
				if w.PutRequest != nil {
					r.Put = orEmpty(itemFromV1(w.PutRequest.Item))
				}
				if w.DeleteRequest != nil {
					r.Del = orEmpty(itemFromV1(w.DeleteRequest.Key))
				}
				o.Unproc = append(o.Unproc, r)
			}
		}
	}
	return o
}

func (d *V1) batchGet(cmd *Cmd) (o Outcome) {
	req := map[string]*dynamodb.KeysAndAttributes{}
	for i, g := range cmd.Gets {
		ka := req[g.T]
		if ka == nil {
			ka = &dynamodb.KeysAndAttributes{}
			req[g.T] = ka
		}
		k := itemToV1(g.Key)
		d.keepIn(cmd.ID, fmt.Sprintf("gets[%d].Key", i), k)
		ka.Keys = append(ka.Keys, k)
	}
	out, err := d.cl.BatchGetItem(&dynamodb.BatchGetItemInput{RequestItems: req})
	d.classify(err, &o)
	if err == nil {
		o.Resp = map[string][]Item{}
		for _, t := range sortedKeys(out.Responses) {
			o.Resp[t] = []Item{}
			for i, it := range out.Responses[t] {
				o.Resp[t] = append(o.Resp[t], orEmpty(itemFromV1(it)))
				d.keepOut(fmt.Sprintf("out.Responses[%s][%d]", t, i), it)
			}
		}
		for _, t := range sortedKeys(out.UnprocessedKeys) {
			for _, k := range out.UnprocessedKeys[t].Keys {
				o.UnprocKeys = append(o.UnprocKeys, BatchKey{T: t, Key: orEmpty(itemFromV1(k))})
			}
		}
	}
	return o
}

func (d *V1) bad(cmd *Cmd) (o Outcome) {
	var names map[string]*string
	if len(cmd.RawName) > 0 {
		names = aws.StringMap(cmd.RawName)
	}
	var vals map[string]*dynamodb.AttributeValue
	if len(cmd.RawVals) > 0 {
		vals = itemToV1(cmd.RawVals)
	}
	var err error
	switch cmd.Base {
	case "Put":
		_, err = d.cl.PutItem(&dynamodb.PutItemInput{TableName: aws.String(cmd.T), Item: itemToV1(cmd.Item), ConditionExpression: strp(cmd.RawExpr),
			ExpressionAttributeNames: names, ExpressionAttributeValues: vals})
	case "Get":
		_, err = d.cl.GetItem(&dynamodb.GetItemInput{TableName: aws.String(cmd.T), Key: itemToV1(fullKey(cmd)), ExpressionAttributeNames: names})
	case "Delete":
		_, err = d.cl.DeleteItem(&dynamodb.DeleteItemInput{TableName: aws.String(cmd.T), Key: itemToV1(fullKey(cmd)), ConditionExpression: strp(cmd.RawExpr),
			ExpressionAttributeNames: names, ExpressionAttributeValues: vals})
	case "Update":
		in := &dynamodb.UpdateItemInput{TableName: aws.String(cmd.T), Key: itemToV1(fullKey(cmd)), UpdateExpression: aws.String(cmd.RawExpr),
			ExpressionAttributeNames: names, ExpressionAttributeValues: vals}
		if cmd.Cond != nil {
			b := NewBinder()
			in.UpdateExpression = aws.String(cmd.Upd.Render(b))
			in.ConditionExpression = strp(cmd.RawExpr)
			for k, v := range b.Values {
				if vals == nil {
					vals = map[string]*dynamodb.AttributeValue{}
				}
				vals[k] = toV1(v)
			}
			in.ExpressionAttributeValues = vals
		}
		_, err = d.cl.UpdateItem(in)
	case "Query":
		_, err = d.cl.Query(&dynamodb.QueryInput{TableName: aws.String(cmd.T), IndexName: strp(cmd.Index), KeyConditionExpression: aws.String(cmd.RawExpr),
			ExpressionAttributeNames: names, ExpressionAttributeValues: vals})
	case "QueryFilter":
		b := NewBinder()
		kc := renderKeyCond(b, cmd.HashAttr, *cmd.Part, nil)
		for k, v := range b.Values {
			if vals == nil {
				vals = map[string]*dynamodb.AttributeValue{}
			}
			vals[k] = toV1(v)
		}
		nm := map[string]*string{}
		for k, v := range names {
			nm[k] = v
		}
		for k, v := range b.Names {
			nm[k] = aws.String(v)
		}
		_, err = d.cl.Query(&dynamodb.QueryInput{TableName: aws.String(cmd.T), KeyConditionExpression: strp(kc), FilterExpression: strp(cmd.RawExpr),
			ExpressionAttributeNames: nm, ExpressionAttributeValues: vals})
	case "Scan":
		_, err = d.cl.Scan(&dynamodb.ScanInput{TableName: aws.String(cmd.T), FilterExpression: strp(cmd.RawExpr),
			ExpressionAttributeNames: names, ExpressionAttributeValues: vals})
	default:
		panic("bad: unknown base op " + cmd.Base)
	}
	d.classify(err, &o)
	return o
}
