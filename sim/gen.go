package sim

import (
	"fmt"
	"sort"
	"strings"
)

// Rng is the only source of choices: splitmix64 seeded from the run's value.
type Rng struct{ s uint64 }

func splitmix64(x uint64) uint64 {
	x += 0x9e3779b97f4a7c15
	x = (x ^ (x >> 30)) * 0xbf58476d1ce4e5b9
	x = (x ^ (x >> 27)) * 0x94d049bb133111eb
	return x ^ (x >> 31)
}

func NewRng(seed uint64) *Rng { return &Rng{splitmix64(seed ^ 0xa5a5a5a5)} }

// Mix derives an independent value from several.
func Mix(vals ...uint64) uint64 {
	x := uint64(0x1234567)
	for _, v := range vals {
		x = splitmix64(x ^ v)
	}
	return x
}

func (r *Rng) U64() uint64 { r.s = splitmix64(r.s); return r.s }
func (r *Rng) Intn(n int) int {
	if n <= 0 {
		return 0
	}
	return int(r.U64() % uint64(n))
}
func (r *Rng) Range(lo, hi int) int  { return lo + r.Intn(hi-lo+1) }
func (r *Rng) Float() float64        { return float64(r.U64()>>11) / float64(1<<53) }
func (r *Rng) Chance(p float64) bool { return r.Float() < p }

// Perm is a random permutation of 0..n-1.
func (r *Rng) Perm(n int) []int {
	p := make([]int, n)
	for i := range p {
		p[i] = i
	}
	for i := n - 1; i > 0; i-- {
		j := r.Intn(i + 1)
		p[i], p[j] = p[j], p[i]
	}
	return p
}
func pick[T any](r *Rng, xs []T) T { return xs[r.Intn(len(xs))] }

// Profile shapes the worlds and workloads of one property's check.
type Profile struct {
	Prop         string
	MinClients   int
	MaxClients   int
	SDK          string // "" mixed, v1, v2
	MaxTables    int
	MinIdx       int
	MaxIdx       int
	RangeProb    float64
	KeyStyle     string   // plain | adversarial | numeric
	AltKeyStyles []string // styles drawn instead of KeyStyle with probability AltKeyProb
	AltKeyProb   float64
	// MistypedAttrs: items may carry g1 with a non-declared type while no index
	// is keyed by it, so that a later index creation meets ill-typed items
	MistypedAttrs bool
	// Unusual: rare values of unusual shape (5 KB string, 33-member set, document five levels deep)
	Unusual bool
	// NativeUpdaters: the manager registers Go updaters on the native interpreter
	NativeUpdaters bool
	// LateFailBias: share of the malformed requests that are updates failing in a
	// late action, after an earlier action worked on a collection of the item
	LateFailBias float64
	// BigUniverse: up to 5 hash and range values per table (thorough tier)
	BigUniverse bool
	// BigTables: the check has a big-table class (thorough tier); Big: this run is one
	BigTables bool
	Big       bool
	MinSteps  int
	MaxSteps  int
	Retain    bool
	Weights   map[string]float64
	FaultFree float64  // share of runs with every fault kind off
	Faults    []string // kinds that count as faults (switched off in fault-free runs)
}

// RunCfg is the swarm configuration drawn for one run.
type RunCfg struct {
	Weights    map[string]float64 `json:"weights"`
	Steps      int                `json:"steps"`
	MapOrder   int                `json:"map_order"`
	FaultFree  bool               `json:"fault_free"`
	AvoidKnown bool               `json:"avoid_known"`
	BigValues  bool               `json:"big_values,omitempty"`
}

var strPool = []string{"a", "b", "ab", "abc", "x", "xy", "a.b", "B", "zz"}
var numPool = []string{"0", "1", "2", "3", "5", "7", "10", "-1", "100", "16777217", "1700000001", "123456789012", "0.5", "1.5", "2.5"} /* halves are exact in binary floating point: no C12 effects */

type attrT struct{ name, typ string }

var dataAttrs = []attrT{{"a", "S"}, {"A", "S"}, {"b", "S"}, {"n", "N"}, {"c", "N"}, {"f", "BOOL"}, {"u", "NULL"}, {"ss", "SS"}, {"ns", "NS"}, {"m", "M"}, {"l", "L"}, {"l2", "L"}, {"bin", "B"}, {"bs", "BS"}}

// Gen turns PRNG draws into worlds and commands.
type Gen struct {
	R      *Rng
	P      *Profile
	W      *World
	Cfg    RunCfg
	nextID int
	defs   map[string][]TableDef // table name -> alternative definitions
	walks  []int                 // open walk ids
	nextW  int
	cmds   []*Cmd // executed so far (for pokes)
	uniq   int
	avoid  map[string]bool // known-finding triggers to steer around
	// inFilter: the condition being generated is evaluated on stored items only
	// (filters), where key attributes always exist; write conditions also see
	// the empty item.
	inFilter   bool
	natFilters []natFilter
	natUpdates []natUpdate
	// hot: the collection a request that had to fail has just (not) touched;
	// the next command probes it (workload placed right after the fault)
	hot *hotSpot
}

type natUpdate struct {
	table string
	u     Update
}

type natFilter struct {
	table string
	f     *Expr
}

// KnownTriggers: trigger names of the findings listed in KNOWN_FINDINGS.txt
// (set once per process). In most runs the generator steers around commands
// that satisfy one, so that exploration continues past a recorded defect.
var KnownTriggers = map[string]bool{}

// ForceNoAvoid makes every run ignore KnownTriggers (used to produce witnesses).
var ForceNoAvoid bool

func NewGen(seed uint64, p *Profile) *Gen {
	g := &Gen{R: NewRng(seed), P: p, defs: map[string][]TableDef{}, nextID: 1, nextW: 1, avoid: map[string]bool{}}
	g.drawCfg()
	if ForceNoAvoid {
		g.Cfg.AvoidKnown = false
	}
	g.makeWorld()
	if ForceNoAvoid {
		g.Cfg.AvoidKnown = false
	}
	if g.Cfg.AvoidKnown {
		for k := range KnownTriggers {
			g.avoid[k] = true
		}
	}
	return g
}

func (g *Gen) id() int { g.nextID++; return g.nextID - 1 }

func keyVals(r *Rng, style, typ string, n int, hash bool, c, e string) []AV {
	var pool []AV
	switch {
	case typ == "N" && mixedWidthNumbers:
		// text order differs from numeric order (1, 10, 100, 11, 2, 9): only in
		// runs that do not steer around the listed number-ordering finding
		for _, s := range []string{"1", "2", "9", "10", "11", "100"} {
			pool = append(pool, N(s))
		}
	case typ == "N":
		for _, s := range []string{"11", "12", "13", "20", "35", "50"} /* equal width: text order = numeric order (number keys are ordered by text: listed finding of C02) */ {
			pool = append(pool, N(s))
		}
	case typ == "B":
		pool = []AV{Bin(1, 1), Bin(1, 2), Bin(2, 1), Bin(7, 7), Bin(9, 1)} // equal width, single digits: text order = byte order
	case style == "adversarial":
		// a family of values that collide under any joining of (hash, range)
		// that is not injective: separator c inside and at the edges of the
		// values, escape character e before it. hashes {a, a+c, a+e, a+c+b},
		// ranges {x, c+x, b+c+x, e+c+x}: ("a"+c+"b","x") = ("a","b"+c+"x") under a
		// naive join, ("a"+e, c+"x") = ("a"+c, "x") under an escape that does not
		// escape itself.
		var fam []string
		switch {
		case c == " " && hash:
			// values made of white space only are values like any other
			fam = []string{" ", "  ", "\t", "a", " a"}
		case c == " ":
			fam = []string{" ", "\t", "x", "x "}
		case c == "%" && hash:
			// values that a printf-style rendering would interpret
			fam = []string{"a%s", "a%v", "a%d", "a%", "a%%"}
		case c == "%":
			fam = []string{"x", "%s", "%v", "%!v(MISSING)", "%"}
		case hash:
			fam = []string{"a", "a" + c, "a" + e, "a" + c + "b", "a" + e + c, " "}
		default:
			fam = []string{"x", c + "x", "b" + c + "x", e + c + "x", c, " "}
		}
		seen := map[string]bool{}
		for _, s := range fam {
			if !seen[s] {
				seen[s] = true
				pool = append(pool, S(s))
			}
		}
		n = len(pool)
	case hash:
		for _, s := range []string{"p", "q", "pq", "pa", "r"} {
			pool = append(pool, S(s))
		}
	default:
		for _, s := range []string{"a", "ab", "abc", "b", "ba", "c", "1", "10", "2"} {
			pool = append(pool, S(s))
		}
	}
	// choose n distinct
	idx := make([]int, len(pool))
	for i := range idx {
		idx[i] = i
	}
	for i := len(idx) - 1; i > 0; i-- {
		j := r.Intn(i + 1)
		idx[i], idx[j] = idx[j], idx[i]
	}
	if n > len(pool) {
		n = len(pool)
	}
	idx = idx[:n]
	sort.Ints(idx)
	out := make([]AV, n)
	for i, j := range idx {
		out[i] = pool[j]
	}
	return out
}

// mixedWidthNumbers is set per world from the run's avoid decision.
var mixedWidthNumbers bool

func (g *Gen) makeWorld() {
	r, p := g.R, g.P
	w := &World{}
	mixedWidthNumbers = KnownTriggers["number-sort-key-order"] && (p.Prop == "C02" || p.Prop == "C04")
	style := p.KeyStyle
	if len(p.AltKeyStyles) > 0 && r.Chance(p.AltKeyProb) {
		style = pick(r, p.AltKeyStyles)
	}
	if p.Big {
		style = "plain" // the big-table universe is made of generated string keys
	}
	nc := r.Range(p.MinClients, p.MaxClients)
	for i := 0; i < nc; i++ {
		sdk := p.SDK
		if sdk == "" {
			sdk = pick(r, []string{"v1", "v2"})
		}
		w.SDKs = append(w.SDKs, sdk)
	}
	nt := r.Range(1, p.MaxTables)
	if p.Big {
		nt = 1
	}
	for i := 0; i < nt; i++ {
		name := fmt.Sprintf("tbl%d", i)
		hashT, rangeT := "S", "S"
		if style == "numeric" {
			hashT = pick(r, []string{"S", "N"})
			rangeT = pick(r, []string{"N", "N", "B", "S"})
			if hashT == "S" && rangeT == "S" {
				hashT = "N"
			}
		}
		u := TableUni{Name: name, IdxVals: map[string][]AV{}}
		sepC, sepE := ".", "\\"
		if r.Chance(0.4) {
			seps := []string{".", "\\", "|", ":", "#", ",", "/", "\x00", "%", "%", " ", " "}
			sepC, sepE = pick(r, seps), pick(r, seps)
		}
		maxVals := 4
		if p.BigUniverse {
			maxVals = 5
		}
		u.HashVals = keyVals(r, style, hashT, r.Range(2, maxVals), true, sepC, sepE)
		u.RangeVals = keyVals(r, style, rangeT, r.Range(2, maxVals), false, sepC, sepE)
		g2T := pick(r, []string{"S", "S", "N"})
		if style != "numeric" && p.Prop != "C02" && p.Prop != "C04" {
			g2T = "S"
		}
		if style == "numeric" && hashT == "N" && !mixedWidthNumbers && r.Chance(0.3) {
			// decimals as key values: (1.5, 2) and (1, 5.2) are different keys
			u.HashVals = []AV{N("1"), N("1.5"), N("2")}
			switch rangeT {
			case "N":
				u.RangeVals = []AV{N("2"), N("5.2"), N("5")}
			case "S":
				u.RangeVals = []AV{S("x"), S("5.x"), S("2"), S("5.2")}
			}
		}
		if p.Big {
			u.HashVals, u.RangeVals = nil, nil
			for j := 0; j < 9; j++ {
				u.HashVals = append(u.HashVals, S(fmt.Sprintf("h%d", j)))
			}
			for j := 0; j < 8; j++ {
				u.RangeVals = append(u.RangeVals, S(fmt.Sprintf("r%d", j)))
			}
		}
		u.IdxVals["g1"] = []AV{S("p"), S("q"), S("pq")}[:r.Range(2, 3)]
		if g2T == "N" {
			u.IdxVals["g2"] = []AV{N("1"), N("2"), N("10")}
		} else {
			u.IdxVals["g2"] = []AV{S("s"), S("st"), S("t")}
		}
		u.IdxVals["l1"] = []AV{S("u"), S("v"), S("uv")}[:r.Range(2, 3)]
		if r.Chance(0.3) {
			// index key values that are proper prefixes of each other and go on with
			// a character below the library's separator '.' (and below letters):
			// an ordering of index entries by one rendered string differs from the
			// ordering by (index key, primary key) exactly there
			u.IdxVals["g1"] = []AV{S("p"), S("p-q"), S("q")}
			if g2T != "N" {
				u.IdxVals["g2"] = []AV{S("s"), S("s-t"), S("s!"), S("t")}
			}
			u.IdxVals["l1"] = []AV{S("u"), S("u-v"), S("u v")}
		}
		w.Tables = append(w.Tables, u)
		// alternative definitions of this table name
		nAlt := 1
		if p.Weights["drop"] > 0 {
			nAlt = 2
		}
		for a := 0; a < nAlt; a++ {
			def := TableDef{Name: name, Hash: KeyDef{"h", hashT}, Billing: pick(r, []string{"PAY_PER_REQUEST", "PROVISIONED"})}
			if r.Chance(p.RangeProb) || p.Big {
				def.Range = &KeyDef{"r", rangeT}
			}
			ni := r.Range(p.MinIdx, p.MaxIdx)
			cands := []IndexDef{
				{Name: "gsi1", Kind: "gsi", Hash: KeyDef{"g1", "S"}},
				{Name: "gsi2", Kind: "gsi", Hash: KeyDef{"g1", "S"}, Range: &KeyDef{"g2", g2T}},
			}
			if def.Range != nil {
				cands = append(cands, IndexDef{Name: "lsi1", Kind: "lsi", Hash: KeyDef{"h", hashT}, Range: &KeyDef{"l1", "S"}})
				// inverted index: keyed by primary-key attributes only
				cands = append(cands, IndexDef{Name: "gsi3", Kind: "gsi", Hash: KeyDef{"r", rangeT}, Range: &KeyDef{"h", hashT}})
				// a global index sharing its key attribute with the local one
				cands = append(cands, IndexDef{Name: "gsi4", Kind: "gsi", Hash: KeyDef{"l1", "S"}})
			}
			for i := len(cands) - 1; i > 0; i-- {
				j := r.Intn(i + 1)
				cands[i], cands[j] = cands[j], cands[i]
			}
			if ni > len(cands) {
				ni = len(cands)
			}
			def.Indexes = append(def.Indexes, cands[:ni]...)
			sort.Slice(def.Indexes, func(i, j int) bool { return def.Indexes[i].Name < def.Indexes[j].Name })
			g.defs[name] = append(g.defs[name], def)
		}
	}
	g.W = w
}

func (g *Gen) drawCfg() {
	r, p := g.R, g.P
	cfg := RunCfg{Weights: map[string]float64{}, Steps: r.Range(p.MinSteps, p.MaxSteps), MapOrder: r.Intn(3)}
	if p.Big {
		cfg.Steps = r.Range(6, 14)
	}
	cfg.FaultFree = r.Chance(p.FaultFree)
	cfg.AvoidKnown = r.Chance(0.8)
	isFault := map[string]bool{}
	for _, f := range p.Faults {
		isFault[f] = true
	}
	for _, k := range sortedKeys(p.Weights) {
		wgt := p.Weights[k]
		if wgt <= 0 {
			continue
		}
		if cfg.FaultFree && isFault[k] {
			continue
		}
		// swarm: each kind is switched off in a quarter of the runs, and scaled
		if r.Chance(0.25) && !essential(k) {
			continue
		}
		cfg.Weights[k] = wgt * (0.5 + 1.5*r.Float())
	}
	// a tenth of the runs with unusual values: most collections are big ones
	cfg.BigValues = p.Unusual && r.Chance(0.1)
	if p.NativeUpdaters && !cfg.FaultFree && r.Chance(0.25) {
		// native-heavy runs: activation and Go updaters early and often
		cfg.Weights["native"] = 2
	}
	g.Cfg = cfg
}

// retains: the commands whose request and response structures the drivers keep
func retains(op string) bool {
	switch op {
	case "Put", "Get", "Delete", "Update", "Query", "Scan", "Open", "Resume", "BatchWrite", "BatchGet":
		return true
	}
	return false
}

func essential(k string) bool { return k == "put" || k == "get" }

// Setup returns the commands that create the initial tables on every client.
func (g *Gen) Setup() []*Cmd {
	var out []*Cmd
	for c := range g.W.SDKs {
		for i := range g.W.Tables {
			name := g.W.Tables[i].Name
			if i > 0 && g.P.Weights["create"] > 0 && g.R.Chance(0.3) {
				continue // left for the manager to create later
			}
			def := g.defs[name][0]
			out = append(out, &Cmd{ID: g.id(), Actor: "setup", Op: "Create", C: c, T: name, Def: &def,
				Helper: len(def.Indexes) == 0 && def.Hash.Type == "S" && (def.Range == nil || def.Range.Type == "S") && def.Billing == "PAY_PER_REQUEST" && g.R.Chance(0.3)})
			if g.P.Big {
				keys := g.W.Tables[i].KeysOf(def)
				n := g.R.Range(62, 68)
				if n > len(keys) {
					n = len(keys)
				}
				for start := 0; start < n; start += 25 {
					b := &Cmd{ID: g.id(), Actor: "setup", Op: "BatchWrite", C: c}
					for j := start; j < n && j < start+25; j++ {
						b.Batch = append(b.Batch, BatchReq{T: name, Put: g.item(name, def, keys[j].Clone())})
					}
					out = append(out, b)
				}
				if g.R.Chance(0.5) {
					// the table shrinks to a handful of items again (thresholds on
					// the way down: spare capacity, compaction)
					left := g.R.Range(3, 12)
					perm := g.R.Perm(n)
					for start := 0; start+left < n; start += 25 {
						b := &Cmd{ID: g.id(), Actor: "setup", Op: "BatchWrite", C: c}
						for j := start; j+left < n && j < start+25; j++ {
							b.Batch = append(b.Batch, BatchReq{T: name, Del: keys[perm[j]].Clone()})
						}
						out = append(out, b)
					}
				}
			}
		}
	}
	return out
}

func (g *Gen) value(typ string) AV {
	r := g.R
	switch typ {
	case "S":
		if g.P.Prop == "C19" && r.Chance(0.02) {
			return S(strings.Repeat("longer-string-", 1400)) // about 19 KB
		}
		if g.P.Unusual && (r.Chance(0.02) || g.P.Prop == "C19" && r.Chance(0.1)) {
			return S(strings.Repeat("long-string-", 420)) // about 5 KB
		}
		if r.Chance(0.3) {
			g.uniq++
			return S(fmt.Sprintf("v%d", g.uniq))
		}
		return S(pick(r, strPool))
	case "N":
		return N(pick(r, numPool))
	case "BOOL":
		return Bool(r.Chance(0.5))
	case "NULL":
		return Null()
	case "SS":
		if g.P.Unusual && (r.Chance(0.03) || g.Cfg.BigValues && r.Chance(0.6)) {
			var big []string
			for i := 0; i < 33; i++ {
				big = append(big, fmt.Sprintf("m%02d", i))
			}
			return SSet(big...)
		}
		n := r.Range(1, 3)
		m := map[string]bool{}
		for i := 0; i < n; i++ {
			m[pick(r, strPool)] = true
		}
		return SSet(sortedKeys(m)...)
	case "NS":
		if g.P.Unusual && (r.Chance(0.02) || g.Cfg.BigValues && r.Chance(0.6)) {
			var big []string
			for i := 0; i < 34; i++ {
				big = append(big, fmt.Sprint(100+i))
			}
			return NSet(big...)
		}
		n := r.Range(1, 3)
		m := map[string]bool{}
		for i := 0; i < n; i++ {
			m[pick(r, numPool)] = true
		}
		return NSet(sortedKeys(m)...)
	case "B":
		return pick(r, []AV{Bin(1), Bin(1, 2), Bin(255, 0), Bin('a')})
	case "BS":
		return pick(r, []AV{BSet([]byte{1}), BSet([]byte{1}, []byte{2}), BSet([]byte{'a', 'b'})})
	case "M":
		if g.P.Unusual && r.Chance(0.03) {
			// five levels deep
			return Map(map[string]AV{"k": Map(map[string]AV{"z": S("d2"), "y": Map(map[string]AV{"x": List(Map(map[string]AV{"w": g.value("N")}), g.value("S"))})})})
		}
		switch r.Intn(3) {
		case 0:
			return Map(map[string]AV{"k": g.value("S")})
		case 1:
			return Map(map[string]AV{"k": g.value("N"), "j": g.value("S")})
		}
		return Map(map[string]AV{"k": Map(map[string]AV{"z": g.value("S")}), "j": g.value("BOOL")})
	case "L":
		if g.P.Unusual && (r.Chance(0.02) || g.Cfg.BigValues && r.Chance(0.6)) {
			var big []AV
			for i := 0; i < 33; i++ {
				big = append(big, N(fmt.Sprint(i)))
			}
			return List(big...)
		}
		switch r.Intn(6) {
		case 0:
			return List(g.value("S"))
		case 1:
			return List(g.value("N"), g.value("S"))
		case 2:
			return List(g.value("NS"), g.value("SS"))
		case 3:
			return List(g.value("B"), g.value("BS"), g.value("BOOL"))
		case 4:
			return List(Map(map[string]AV{"k": g.value("NS"), "j": g.value("B")}), g.value("NULL"))
		}
		return List(List(g.value("S")), g.value("N"))
	}
	panic("value: " + typ)
}

// tableOf picks a table name; existing in the model with probability high.
func (g *Gen) tableOf(mc *MClient) (string, *MTable) {
	names := sortedKeys(mc.Tables)
	pMissing := 0.05
	if mc.Fail != "none" {
		pMissing = 0.2 // a failing client must fail the same way whatever the table
	}
	if len(names) == 0 || g.R.Chance(pMissing) {
		u := pick(g.R, g.W.Tables)
		return u.Name, mc.Tables[u.Name]
	}
	n := pick(g.R, names)
	return n, mc.Tables[n]
}

func (g *Gen) defFor(name string, mt *MTable) TableDef {
	if mt != nil {
		return mt.Def
	}
	return g.defs[name][0]
}

// keyFor picks a key of the universe, biased to keys that exist.
func (g *Gen) keyFor(name string, def TableDef, mt *MTable) Item {
	u := g.W.uni(name)
	keys := u.KeysOf(def)
	if len(keys) == 0 {
		return Item{def.Hash.Name: S("p")}
	}
	if mt != nil && g.P.MistypedAttrs && g.R.Chance(0.25) {
		// an item that an index had to leave out because its index key attribute
		// has another type than the index declares
		var odd []string
		for _, id := range sortedKeys(mt.Items) {
			for _, kd := range indexAttrs(def) {
				if v, ok := mt.Items[id][kd.Name]; ok && v.T != kd.Type {
					odd = append(odd, id)
					break
				}
			}
		}
		if len(odd) > 0 {
			return keyOf(def, mt.Items[pick(g.R, odd)])
		}
	}
	if mt != nil && len(mt.Items) > 0 && g.R.Chance(0.6) {
		ids := sortedKeys(mt.Items)
		it := mt.Items[pick(g.R, ids)]
		return keyOf(def, it)
	}
	return pick(g.R, keys).Clone()
}

func (g *Gen) idxAttrVal(name string, attr string, typ string) AV {
	u := g.W.uni(name)
	vals := u.IdxVals[attr]
	var ok []AV
	for _, v := range vals {
		if v.T == typ {
			ok = append(ok, v)
		}
	}
	if len(ok) == 0 {
		return g.value(typ)
	}
	return pick(g.R, ok)
}

// indexAttrs lists the non-primary-key attributes that are keys of some index.
func indexAttrs(def TableDef) []KeyDef {
	seen := map[string]bool{def.Hash.Name: true}
	if def.Range != nil {
		seen[def.Range.Name] = true
	}
	var out []KeyDef
	for _, ix := range def.Indexes {
		for _, k := range ix.KeyAttrs() {
			if !seen[k.Name] {
				seen[k.Name] = true
				out = append(out, k)
			}
		}
	}
	sort.Slice(out, func(i, j int) bool { return out[i].Name < out[j].Name })
	return out
}

func (g *Gen) item(name string, def TableDef, key Item) Item {
	it := key.Clone()
	for _, k := range indexAttrs(def) {
		if g.R.Chance(0.65) {
			it[k.Name] = g.idxAttrVal(name, k.Name, k.Type)
		}
	}
	// an attribute that a later UpdateTable may declare as an index key, with
	// another type: index creation over such items must skip them
	indexed := map[string]bool{}
	for _, k := range indexAttrs(def) {
		indexed[k.Name] = true
	}
	if g.P.MistypedAttrs && !indexed["g1"] && g.R.Chance(0.08) {
		it["g1"] = N("5")
	}
	if g.P.MistypedAttrs && !indexed["g2"] && g.R.Chance(0.15) {
		it["g2"] = pick(g.R, []AV{N("5"), S("st"), N("10")})
		if g.R.Chance(0.7) {
			it["g1"] = g.idxAttrVal(name, "g1", "S")
		}
	}
	n := g.R.Intn(4)
	for i := 0; i < n; i++ {
		a := pick(g.R, dataAttrs)
		it[a.name] = g.value(a.typ)
	}
	if g.R.Chance(0.12) {
		// a top-level attribute whose name contains a dot, read by conditions and
		// filters through a #name. (No map "d" with a member "v" next to it: when
		// no attribute "d.v" exists the library falls back to reading the #name's
		// value as a document path, where DynamoDB sees an absent attribute -
		// expression semantics, C06, appendix C.)
		it["d.v"] = g.value("N")
	}
	return it
}

// cond builds a condition over the typed attribute names.
func (g *Gen) cond(name string, def TableDef, depth int) *Expr {
	r := g.R
	filter := g.inFilter
	if depth > 0 && r.Chance(0.35) {
		switch r.Intn(3) {
		case 0:
			a, b := g.cond(name, def, depth-1), g.cond(name, def, depth-1)
			a.Paren = a.Paren || a.Op == "or" || a.Op == "between" || r.Chance(0.2)
			b.Paren = b.Paren || b.Op == "or" || b.Op == "between" || r.Chance(0.2)
			return &Expr{Op: "and", Args: []*Expr{a, b}}
		case 1:
			a, b := g.cond(name, def, depth-1), g.cond(name, def, depth-1)
			a.Paren = a.Paren || a.Op == "between" || r.Chance(0.2)
			b.Paren = b.Paren || b.Op == "between" || r.Chance(0.2)
			return &Expr{Op: "or", Args: []*Expr{a, b}}
		default:
			a := g.cond(name, def, depth-1)
			a.Paren = true
			return &Expr{Op: "not", Args: []*Expr{a}}
		}
	}
	// leaf
	type cand struct{ name, typ string }
	cands := []cand{{"a", "S"}, {"A", "S"}, {"b", "S"}, {"n", "N"}, {"c", "N"}, {"f", "BOOL"}, {"ss", "SS"}, {"m", "M"}, {"l", "L"}, {"d.v", "N"}}
	for _, k := range def.KeyAttrs() {
		cands = append(cands, cand{k.Name, k.Type})
	}
	if !g.P.MistypedAttrs {
		// (with MistypedAttrs an index attribute may hold another type, and a
		// cross-type comparison is outside the fragment: appendix A)
		for _, k := range indexAttrs(def) {
			cands = append(cands, cand{k.Name, k.Type})
		}
	}
	c := pick(r, cands)
	p := &Path{Attr: c.name, Alias: r.Chance(0.3)}
	val := func() AV {
		if v := g.W.uni(name); v != nil {
			if vals, ok := v.IdxVals[c.name]; ok {
				return pick(r, vals)
			}
			if c.name == def.Hash.Name {
				return pick(r, v.HashVals)
			}
			if def.Range != nil && c.name == def.Range.Name {
				return pick(r, v.RangeVals)
			}
		}
		return g.value(c.typ)
	}
	switch c.typ {
	case "S", "N":
		switch r.Intn(10) {
		case 0:
			return &Expr{Op: "exists", Path: p}
		case 1:
			return &Expr{Op: "not_exists", Path: p}
		case 2:
			lo, hi := val(), val()
			if x, _ := CmpScalar(lo, hi); x > 0 {
				lo, hi = hi, lo
			}
			return &Expr{Op: "between", Path: p, Vals: []AV{lo, hi}}
		case 3:
			if c.typ == "N" && !g.P.MistypedAttrs && r.Chance(0.3) {
				// operands of another type that print like the attribute's values:
				// S "2" is not equal to N 2, so IN is false of every stored item
				if x, y := val(), val(); x.T == "N" && y.T == "N" {
					return &Expr{Op: "in", Path: p, Vals: []AV{S(x.S), S(y.S)}}
				}
			}
			return &Expr{Op: "in", Path: p, Vals: []AV{val(), val()}}
		case 4:
			// begins_with / contains only on primary key attributes: on an attribute
			// that may be absent the library reports an error where DynamoDB answers
			// false (expression semantics, C06 - not claimed; DESIGN.md appendix C)
			isKey := c.name == def.Hash.Name || (def.Range != nil && c.name == def.Range.Name)
			if c.typ == "S" && isKey && filter {
				v := val()
				if len(v.S) > 1 && r.Chance(0.7) {
					v = S(v.S[:1])
				}
				return &Expr{Op: pick(r, []string{"begins", "contains"}), Path: p, Vals: []AV{v}}
			}
			fallthrough
		case 5:
			if r.Chance(0.5) {
				// attribute_type answers false for an absent attribute: usable anywhere
				return &Expr{Op: "type", Path: p, Vals: []AV{S(pick(r, []string{c.typ, c.typ, "S", "N", "BOOL", "SS", "L", "M"}))}}
			}
			isKey := c.name == def.Hash.Name || (def.Range != nil && c.name == def.Range.Name)
			if c.typ == "S" && isKey && filter {
				// size() needs the attribute: key attributes, which every stored item has
				return &Expr{Op: "size" + pick(r, []string{"=", "<>", "<", "<=", ">", ">="}), Path: p, Vals: []AV{N(pick(r, []string{"0", "1", "2", "3"}))}}
			}
			fallthrough
		default:
			return &Expr{Op: pick(r, []string{"=", "=", "<>", "<", "<=", ">", ">="}), Path: p, Vals: []AV{val()}}
		}
	case "BOOL":
		if r.Chance(0.5) {
			return &Expr{Op: "=", Path: p, Vals: []AV{Bool(r.Chance(0.5))}}
		}
	case "SS":
		if r.Chance(0.5) {
			// equality of sets: same members, whatever their order
			return &Expr{Op: pick(r, []string{"=", "<>"}), Path: p, Vals: []AV{pick(r, []AV{g.value("SS"), SSet(pick(r, strPool)), SSet("abc", "b"), SSet("b", "a")})}}
		}
	case "M":
		if r.Chance(0.5) {
			return &Expr{Op: pick(r, []string{"exists", "not_exists"}), Path: &Path{Attr: "m", Sub: []PathElem{{Key: "k"}}}}
		}
	}
	return &Expr{Op: pick(r, []string{"exists", "not_exists"}), Path: p}
}

// sortCond builds a sort-key condition for a Query.
func (g *Gen) sortCond(name string, rng KeyDef, vals []AV) *Expr {
	r := g.R
	var ok []AV
	for _, v := range vals {
		if v.T == rng.Type {
			ok = append(ok, v)
		}
	}
	if len(ok) == 0 {
		return nil
	}
	p := &Path{Attr: rng.Name, Alias: r.Chance(0.3)}
	switch r.Intn(8) {
	case 0:
		lo, hi := pick(r, ok), pick(r, ok)
		if x, _ := CmpScalar(lo, hi); x > 0 {
			lo, hi = hi, lo
		}
		return &Expr{Op: "between", Path: p, Vals: []AV{lo, hi}}
	case 1:
		if rng.Type == "S" {
			v := pick(r, ok)
			if len(v.S) > 1 && r.Chance(0.7) {
				v = S(v.S[:1])
			}
			return &Expr{Op: "begins", Path: p, Vals: []AV{v}}
		}
	}
	return &Expr{Op: pick(r, []string{"=", "<", "<=", ">", ">="}), Path: p, Vals: []AV{pick(r, ok)}}
}

// update builds an update inside the fragment for the current item (cur may be nil).
func (g *Gen) update(name string, def TableDef, cur Item) Update {
	r := g.R
	var u Update
	used := map[string]bool{}
	n := r.Range(1, 3)
	ia := indexAttrs(def)
	for tries := 0; len(u) < n && tries < 12; tries++ {
		var a UpdAction
		switch k := r.Intn(12); {
		case k < 3: // SET data attr
			at := pick(r, dataAttrs)
			a = UpdAction{Kind: "SET", Path: Path{Attr: at.name, Alias: r.Chance(0.2)}, Form: "val", Val: g.value(at.typ)}
		case k < 5 && len(ia) > 0: // SET index key attr
			kd := pick(r, ia)
			a = UpdAction{Kind: "SET", Path: P(kd.Name), Form: "val", Val: g.idxAttrVal(name, kd.Name, kd.Type)}
		case k == 5:
			at := pick(r, []string{"n", "c"})
			if v, ok := cur[at]; ok && v.T == "N" {
				a = UpdAction{Kind: "SET", Path: P(at), Form: pick(r, []string{"plus", "minus"}), Src: &Path{Attr: at}, Val: N(pick(r, []string{"1", "2", "10"}))}
			} else {
				a = UpdAction{Kind: "SET", Path: P(at), Form: "ine", Src: &Path{Attr: at}, Val2: N("0"), Val: N("1")}
			}
		case k == 6:
			a = UpdAction{Kind: "ADD", Path: P(pick(r, []string{"n", "c"})), Val: N(pick(r, []string{"1", "5", "-1"}))}
			if v, ok := cur[a.Path.Attr]; ok && v.T != "N" {
				continue
			}
		case k == 7:
			a = UpdAction{Kind: "ADD", Path: P("ss"), Val: g.value("SS")}
			if v, ok := cur["ss"]; ok && v.T != "SS" {
				continue
			}
		case k == 8: // REMOVE
			var names []string
			for _, kk := range sortedKeys(cur) {
				if kk != def.Hash.Name && (def.Range == nil || kk != def.Range.Name) {
					names = append(names, kk)
				}
			}
			if len(names) == 0 || r.Chance(0.15) {
				names = append(names, pick(r, dataAttrs).name)
			}
			a = UpdAction{Kind: "REMOVE", Path: P(pick(r, names))}
		case k == 9: // nested
			if v, ok := cur["m"]; ok && v.T == "M" {
				if inner, has := v.M["k"]; has && inner.T == "M" && r.Chance(0.5) {
					// two steps deep
					if r.Chance(0.7) {
						a = UpdAction{Kind: "SET", Path: Path{Attr: "m", Sub: []PathElem{{Key: "k"}, {Key: "z"}}}, Form: "val", Val: g.value("S")}
					} else if _, hz := inner.M["z"]; hz && len(inner.M) > 1 {
						// (never emptying a map: the SDK v2 adapter returns empty maps as NULL, C10)
						a = UpdAction{Kind: "REMOVE", Path: Path{Attr: "m", Sub: []PathElem{{Key: "k"}, {Key: "z"}}}}
					} else {
						continue
					}
				} else if r.Chance(0.5) {
					a = UpdAction{Kind: "SET", Path: Path{Attr: "m", Sub: []PathElem{{Key: "k"}}}, Form: "val", Val: g.value("S")}
				} else if _, has := v.M["j"]; has {
					a = UpdAction{Kind: "REMOVE", Path: Path{Attr: "m", Sub: []PathElem{{Key: "j"}}}}
				} else {
					continue
				}
			} else {
				continue
			}
		case k == 10:
			if v, ok := cur["l"]; ok && v.T == "L" && len(v.L) > 0 && v.L[0].T == "L" && len(v.L[0].L) > 0 && r.Chance(0.4) {
				a = UpdAction{Kind: "SET", Path: Path{Attr: "l", Sub: []PathElem{{IsI: true, Idx: 0}, {IsI: true, Idx: 0}}}, Form: "val", Val: g.value("S")}
			} else if v, ok := cur["l"]; ok && v.T == "L" && len(v.L) > 0 {
				switch r.Intn(3) {
				case 0:
					a = UpdAction{Kind: "SET", Path: Path{Attr: "l", Sub: []PathElem{{IsI: true, Idx: r.Intn(len(v.L))}}}, Form: "val", Val: g.value("S")}
				case 1:
					a = UpdAction{Kind: "SET", Path: P("l"), Form: "append", Src: &Path{Attr: "l"}, Val: List(g.value("S"))}
					if r.Chance(0.35) {
						// the result goes to another attribute: the source list stays as it is
						a.Path = P("l2")
					}
				default:
					if len(v.L) < 2 {
						continue
					}
					a = UpdAction{Kind: "REMOVE", Path: Path{Attr: "l", Sub: []PathElem{{IsI: true, Idx: r.Intn(len(v.L))}}}}
				}
			} else {
				continue
			}
		default:
			if v, ok := cur["ss"]; ok && v.T == "SS" && len(v.SS) > 1 {
				a = UpdAction{Kind: "DELETE", Path: P("ss"), Val: SSet(v.SS[0])}
			} else {
				continue
			}
		}
		if used[a.Path.Attr] || (a.Src != nil && a.Src.Attr != a.Path.Attr && used[a.Src.Attr]) {
			continue
		}
		used[a.Path.Attr] = true
		if a.Src != nil {
			// (no other action of the expression may assign what this one reads)
			used[a.Src.Attr] = true
		}
		if !a.Path.Alias && r.Chance(0.2) {
			// any action may reach its attribute through a #name (also the first
			// element of a document path)
			a.Path.Alias = true
		}
		u = append(u, a)
	}
	if len(u) == 0 {
		u = Update{{Kind: "SET", Path: P("a"), Form: "val", Val: g.value("S")}}
	}
	return u
}

// weighted choice among enabled kinds.
func (g *Gen) kind() string {
	total := 0.0
	keys := sortedKeys(g.Cfg.Weights)
	for _, k := range keys {
		total += g.Cfg.Weights[k]
	}
	x := g.R.Float() * total
	for _, k := range keys {
		x -= g.Cfg.Weights[k]
		if x < 0 {
			return k
		}
	}
	return "get"
}

// Next generates the next command from the current model state. hist is the
// list of commands executed so far.
func (g *Gen) Next(m *Model, eng *Engine) *Cmd {
	for tries := 0; tries < 40; tries++ {
		if c := g.try(m, eng); c != nil {
			c.ID = g.id()
			return c
		}
	}
	return &Cmd{ID: g.id(), Op: "Describe", C: 0, T: g.W.Tables[0].Name, Actor: "reader"}
}

type hotSpot struct {
	c     int
	table string
	key   Item
	attr  string
}

// followUp reads or extends, through an expression, the collection a failed
// request named: a condition on its members, or a successful update of it.
func (g *Gen) followUp(m *Model, h *hotSpot) *Cmd {
	r := g.R
	mt := m.Clients[h.c].Tables[h.table]
	if mt == nil || m.Clients[h.c].Fail != "none" || m.Clients[h.c].Native {
		return nil
	}
	cur := mt.Items[KeyID(mt.Def, h.key)]
	v, ok := cur[h.attr]
	if !ok {
		return nil
	}
	g.uniq++
	cmd := &Cmd{C: h.c, T: h.table, Op: "Update", Actor: "writer", Key: h.key.Clone(), NeedHas: map[string]string{h.attr: v.T}}
	if v.T == "L" && len(v.L) > 0 {
		cmd.NeedHas[h.attr] = "L:" + v.L[0].T
	}
	path := Path{Attr: h.attr, Alias: true}
	if r.Chance(0.5) {
		cmd.Upd = Update{{Kind: "SET", Path: P("b"), Form: "val", Val: S(fmt.Sprintf("v%d", g.uniq))}}
		switch v.T {
		case "SS":
			cmd.Cond = &Expr{Op: "contains", Path: &path, Vals: []AV{S(pick(r, []string{"added", "m00", v.SS[0]}))}}
		case "NS":
			cmd.Cond = &Expr{Op: "contains", Path: &path, Vals: []AV{N(pick(r, []string{"7", "100", v.SS[0]}))}}
		case "L":
			if len(v.L) == 0 || (v.L[0].T != "S" && v.L[0].T != "N") {
				return nil
			}
			path.Sub = []PathElem{{IsI: true, Idx: 0}}
			cmd.Cond = &Expr{Op: "=", Path: &path, Vals: []AV{v.L[0]}}
		case "M":
			path.Sub = []PathElem{{Key: "k"}}
			cmd.Cond = &Expr{Op: "exists", Path: &path}
		default:
			return nil
		}
		if r.Chance(0.3) {
			cmd.Cond = &Expr{Op: "not", Args: []*Expr{cmd.Cond}}
			cmd.Cond.Args[0].Paren = true
		}
		cmd.RetOnFail = r.Chance(0.3)
		return cmd
	}
	switch v.T {
	case "SS":
		cmd.Upd = Update{{Kind: "ADD", Path: path, Val: SSet("zz")}}
	case "NS":
		cmd.Upd = Update{{Kind: "ADD", Path: path, Val: NSet("3")}}
	case "L":
		cmd.Upd = Update{{Kind: "SET", Path: path, Form: "append", Src: &path, Val: List(S("tail"))}}
	case "M":
		p2 := path
		p2.Sub = []PathElem{{Key: "j"}}
		cmd.Upd = Update{{Kind: "SET", Path: p2, Form: "val", Val: S(fmt.Sprintf("v%d", g.uniq))}}
	default:
		return nil
	}
	return cmd
}

func (g *Gen) try(m *Model, eng *Engine) *Cmd {
	r := g.R
	if h := g.hot; h != nil {
		g.hot = nil
		if r.Chance(0.7) {
			if c := g.followUp(m, h); c != nil {
				return c
			}
		}
	}
	c := r.Intn(len(m.Clients))
	mc := m.Clients[c]
	kind := g.kind()
	name, mt := g.tableOf(mc)
	def := g.defFor(name, mt)
	cmd := &Cmd{C: c, T: name}
	switch kind {
	case "put", "putcond":
		cmd.Op, cmd.Actor = "Put", "writer"
		cmd.Item = g.item(name, def, g.keyFor(name, def, mt))
		if kind == "putcond" {
			cmd.Cond = g.cond(name, def, 2)
			cmd.RetOnFail = r.Chance(0.3)
			g.biasCond(cmd, mt, def, cmd.Item)
			g.attrOperandCond(cmd, mt, def, cmd.Item)
			g.fnCond(cmd, mt, def, cmd.Item)
		}
	case "update", "updcond":
		cmd.Op, cmd.Actor = "Update", "writer"
		cmd.Key = g.keyFor(name, def, mt)
		var cur Item
		if mt != nil {
			cur = mt.Items[KeyID(def, cmd.Key)]
		}
		if cur == nil {
			cur = cmd.Key
		}
		cmd.Upd = g.update(name, def, cur)
		if len(g.natUpdates) > 0 && (r.Chance(0.4) || mc.Native && r.Chance(0.5)) {
			// reuse the text of a registered Go updater
			nu := pick(r, g.natUpdates)
			if nu.table == name {
				cmd.Upd = nu.u
			}
		}
		if r.Chance(0.12) {
			cmd.RetVal = pick(r, []string{"NONE", "UPDATED_OLD", "UPDATED_NEW", "ALL_OLD"})
		}
		if kind == "updcond" {
			cmd.Cond = g.cond(name, def, 2)
			cmd.RetOnFail = r.Chance(0.3)
			g.biasCond(cmd, mt, def, cmd.Key)
			g.attrOperandCond(cmd, mt, def, cmd.Key)
			g.fnCond(cmd, mt, def, cmd.Key)
		}
	case "delete", "delcond":
		cmd.Op, cmd.Actor = "Delete", "writer"
		cmd.Key = g.keyFor(name, def, mt)
		if kind == "delcond" {
			cmd.Cond = g.cond(name, def, 2)
			cmd.RetOnFail = r.Chance(0.3)
			g.biasCond(cmd, mt, def, cmd.Key)
			g.attrOperandCond(cmd, mt, def, cmd.Key)
			g.fnCond(cmd, mt, def, cmd.Key)
		}
	case "get":
		cmd.Op, cmd.Actor = "Get", "reader"
		cmd.Key = g.keyFor(name, def, mt)
		if r.Chance(0.1) {
			cmd.Proj = [][]string{{"a"}, {"a", "b"}, {"h"}, {"h", "r", "a"}, {"n", "ss"}, {"m", "l"}}[r.Intn(6)]
			cmd.ProjNames = r.Chance(0.5)
		}
	case "query", "scan", "open":
		cmd.Actor = "reader"
		g.shape(cmd, name, def, kind != "scan" && (kind == "query" || r.Chance(0.6)))
		if cmd.Part == nil {
			cmd.Op = "Scan"
		} else {
			cmd.Op = "Query"
		}
		if kind == "open" {
			if mt == nil {
				return nil
			}
			cmd.Op, cmd.Actor = "Open", "paginator"
			cmd.Walk = g.nextW
			g.nextW++
			if r.Chance(0.2) {
				// a ProjectionExpression, with or without the key attributes
				cmd.Proj = [][]string{{"a"}, {"a", "b"}, {"h"}, {"h", "r", "a"}, {"n", "g1"}, {"r"}}[r.Intn(6)]
			}
			n := len(mt.Items)
			cmd.Limit = r.Range(1, n+1)
			if r.Chance(0.4) {
				cmd.Limit = r.Range(1, 2)
			}
			g.walks = append(g.walks, cmd.Walk)
		}
	case "resume":
		if len(g.walks) == 0 {
			return nil
		}
		w := pick(r, g.walks)
		ws := eng.walks[w]
		if ws == nil || ws.done {
			g.dropWalk(w)
			return nil
		}
		cmd.Op, cmd.Actor, cmd.Walk, cmd.C, cmd.T = "Resume", "paginator", w, ws.open.C, ws.open.T
	case "chase":
		// interfering writer: delete (or rewrite) exactly the item the last
		// page of an open walk named as its continuation key
		if len(g.walks) == 0 {
			return nil
		}
		w := pick(r, g.walks)
		ws := eng.walks[w]
		if ws == nil || ws.done || ws.lastLEK == nil {
			return nil
		}
		omc := m.Clients[ws.open.C]
		omt := omc.Tables[ws.open.T]
		if omt == nil {
			return nil
		}
		cmd.C, cmd.T, cmd.Actor = ws.open.C, ws.open.T, "injector"
		key := keyOf(omt.Def, ws.lastLEK)
		switch r.Intn(4) {
		case 0:
			cmd.Op, cmd.Item = "Put", g.item(ws.open.T, omt.Def, key)
		default:
			cmd.Op, cmd.Key = "Delete", key
		}
	case "batchw":
		cmd.Op, cmd.Actor, cmd.T = "BatchWrite", "writer", ""
		n := r.Range(1, 6)
		if r.Chance(0.05) {
			n = r.Range(20, 25)
		}
		seen := map[string]bool{}
		for i := 0; i < n; i++ {
			tn, tmt := g.tableOf(mc)
			if tmt == nil {
				continue
			}
			k := g.keyFor(tn, tmt.Def, tmt)
			id := tn + "|" + KeyID(tmt.Def, k)
			if seen[id] {
				continue
			}
			seen[id] = true
			if r.Chance(0.6) {
				cmd.Batch = append(cmd.Batch, BatchReq{T: tn, Put: g.item(tn, tmt.Def, k)})
			} else {
				cmd.Batch = append(cmd.Batch, BatchReq{T: tn, Del: k})
			}
		}
		if len(cmd.Batch) == 0 {
			return nil
		}
		// the same put listed under a second table with the same key schema (a
		// caller reusing one request value)
		if names := sortedKeys(mc.Tables); len(names) >= 2 && r.Chance(0.15) {
			for _, req := range cmd.Batch {
				if req.Put == nil {
					continue
				}
				for _, tn := range names {
					tdef := mc.Tables[tn].Def
					if tn == req.T || schemaString(tdef.KeyAttrs()) != schemaString(mc.Tables[req.T].Def.KeyAttrs()) || seen[tn+"|"+KeyID(tdef, req.Put)] {
						continue
					}
					if keyProblem(tdef.KeyAttrs(), req.Put, false) != "" || indexProblem(tdef, req.Put) {
						continue
					}
					seen[tn+"|"+KeyID(tdef, req.Put)] = true
					cmd.Batch = append(cmd.Batch, BatchReq{T: tn, Put: req.Put.Clone()})
					break
				}
				break
			}
		}
	case "batchbad":
		cmd.Op, cmd.Actor, cmd.T = "BatchWrite", "injector", ""
		if mt == nil {
			return nil
		}
		switch r.Intn(4) {
		case 3:
			// more than 25 requests in total, at most 25 per table
			names := sortedKeys(mc.Tables)
			if len(names) < 2 {
				return nil
			}
			for _, tn := range names[:2] {
				tdef := mc.Tables[tn].Def
				keys := g.W.uni(tn).KeysOf(tdef)
				for i := 0; i < 13; i++ {
					it := g.item(tn, tdef, keys[i%len(keys)].Clone())
					it["a"] = S(fmt.Sprintf("over%d", i))
					cmd.Batch = append(cmd.Batch, BatchReq{T: tn, Put: it})
				}
			}
		case 0:
			u := g.W.uni(name)
			keys := u.KeysOf(def)
			for i := 0; i < 26; i++ {
				k := keys[i%len(keys)].Clone()
				it := g.item(name, def, k)
				it["a"] = S(fmt.Sprintf("over%d", i))
				cmd.Batch = append(cmd.Batch, BatchReq{T: name, Put: it})
			}
		case 1:
			k := g.keyFor(name, def, mt)
			cmd.Batch = []BatchReq{{T: name, Put: g.item(name, def, g.keyFor(name, def, mt))}, {T: name, Both: true, Put: g.item(name, def, k), Del: k}}
		default:
			cmd.Batch = []BatchReq{{T: name, Put: g.item(name, def, g.keyFor(name, def, mt))}, {T: name, None: true}}
		}
	case "batchg":
		cmd.Op, cmd.Actor, cmd.T = "BatchGet", "reader", ""
		if g.avoid["v1-batchget"] && (g.W.SDKs[c] == "v1" || g.P.Prop == "C17") {
			return nil // (in C17's twin worlds every command also runs on the v1 client)
		}
		n := r.Range(1, 5)
		seen := map[string]bool{}
		for i := 0; i < n; i++ {
			tn, tmt := g.tableOf(mc)
			if tmt == nil {
				continue
			}
			var k Item
			if g.avoid["batchget-absent-key"] && len(tmt.Items) > 0 {
				k = keyOf(tmt.Def, tmt.Items[pick(r, sortedKeys(tmt.Items))])
			} else if g.avoid["batchget-absent-key"] {
				continue
			} else {
				k = g.keyFor(tn, tmt.Def, tmt)
			}
			id := tn + "|" + KeyID(tmt.Def, k)
			if seen[id] {
				continue
			}
			seen[id] = true
			cmd.Gets = append(cmd.Gets, BatchKey{T: tn, Key: k})
		}
		if len(cmd.Gets) == 0 {
			return nil
		}
		if r.Chance(0.2) {
			// one projection for the whole batch; it names the key attributes
			cmd.Proj = append([]string{"h", "r"}, [][]string{{"a"}, {"a", "b"}, {"n", "ss"}, {}}[r.Intn(4)]...)
			cmd.ProjNames = r.Chance(0.6)
		}
	case "transact":
		cmd.Op, cmd.Actor, cmd.T = "Transact", "writer", ""
	case "describe":
		cmd.Op, cmd.Actor = "Describe", "reader"
	case "create":
		u := pick(r, g.W.Tables)
		d := pick(r, g.defs[u.Name])
		cmd.Op, cmd.Actor, cmd.T, cmd.Def = "Create", "manager", u.Name, &d
		cmd.Helper = len(d.Indexes) == 0 && d.Hash.Type == "S" && (d.Range == nil || d.Range.Type == "S") && d.Billing == "PAY_PER_REQUEST" && r.Chance(0.4)
	case "drop":
		cmd.Op, cmd.Actor = "Drop", "manager"
	case "clear":
		cmd.Op, cmd.Actor = "Clear", "manager"
	case "idxcreate":
		if mt == nil {
			return nil
		}
		var cands []IndexDef
		g2T := "S"
		if vals := g.W.uni(name).IdxVals["g2"]; len(vals) > 0 {
			g2T = vals[0].T
		}
		pool := []IndexDef{{Name: "gsi1", Kind: "gsi", Hash: KeyDef{"g1", "S"}}, {Name: "gsi2", Kind: "gsi", Hash: KeyDef{"g1", "S"}, Range: &KeyDef{"g2", g2T}}, {Name: "gsi4", Kind: "gsi", Hash: KeyDef{"l1", "S"}}}
		if mt.Def.Range != nil {
			pool = append(pool, IndexDef{Name: "gsi3", Kind: "gsi", Hash: KeyDef{mt.Def.Range.Name, mt.Def.Range.Type}, Range: &KeyDef{mt.Def.Hash.Name, mt.Def.Hash.Type}})
		}
		for _, ix := range pool {
			if mt.Def.index(ix.Name) == nil {
				cands = append(cands, ix)
			}
		}
		if len(cands) == 0 {
			return nil
		}
		ix := pick(r, cands)
		if g.P.MistypedAttrs && ix.Name == "gsi2" && r.Chance(0.3) {
			// the same attribute declared again with another type
			rt := *ix.Range
			if rt.Type == "S" {
				rt.Type = "N"
			} else {
				rt.Type = "S"
			}
			ix.Range = &rt
		}
		cmd.Op, cmd.Actor, cmd.IdxDef = "IndexCreate", "manager", &ix
		// (on a provisioned table the helper, which sends no throughput, is refused: modelled)
		cmd.Helper = ix.Hash.Type == "S" && (ix.Range == nil || ix.Range.Type == "S") && (mt.Def.Billing == "PAY_PER_REQUEST" && r.Chance(0.4) || mt.Def.Billing != "PAY_PER_REQUEST" && r.Chance(0.15))
	case "idxdrop":
		if mt == nil {
			return nil
		}
		var cands []string
		for _, ix := range mt.Def.Indexes {
			if ix.Kind == "gsi" {
				cands = append(cands, ix.Name)
			}
		}
		if len(cands) == 0 {
			return nil
		}
		cmd.Op, cmd.Actor, cmd.Index = "IndexDrop", "manager", pick(r, cands)
	case "toggle":
		cmd.Op, cmd.Actor, cmd.T = "Toggle", "injector", ""
		if mc.Fail != "none" && r.Chance(0.7) {
			cmd.Fail = "none"
			cmd.Entry = pick(r, []string{"emulate", "deactive"})
		} else {
			switch r.Intn(4) {
			case 0:
				cmd.Fail, cmd.Entry = "deprecated", "active"
			case 1:
				cmd.Fail, cmd.Entry = "deprecated", "emulate"
			case 2:
				cmd.Fail, cmd.Entry = "none", pick(r, []string{"emulate", "deactive"})
			default:
				cmd.Fail, cmd.Entry = "internal_server", "emulate"
			}
		}
	case "poke":
		if len(g.cmds) == 0 {
			return nil
		}
		// recent structures more often than old ones
		var cands []*Cmd
		for _, c := range g.cmds {
			if retains(c.Op) {
				cands = append(cands, c)
			}
		}
		if len(cands) == 0 {
			return nil
		}
		var ref *Cmd
		if r.Chance(0.5) {
			ref = cands[len(cands)-1-r.Intn(min(3, len(cands)))]
		} else {
			ref = pick(r, cands)
		}
		cmd.Op, cmd.Actor, cmd.C, cmd.T = "Poke", "injector", ref.C, ""
		cmd.Ref, cmd.Dir, cmd.Slot = ref.ID, pick(r, []string{"in", "out"}), r.Intn(64)
	case "idxtype":
		// F3: a write whose index key attribute has the wrong type (late failure)
		ia := indexAttrs(def)
		if mt == nil || len(ia) == 0 {
			return nil
		}
		kd := pick(r, ia)
		wrong := N("5")
		if kd.Type == "N" {
			wrong = S("five")
		}
		// the other key attributes of the indexes keyed by kd are made present, so
		// that the index key is complete and its type necessarily checked (an
		// ill-typed attribute of an incomplete index key is accepted by the
		// library and rejected by DynamoDB: a usage restriction, C16, not claimed)
		var others []KeyDef
		for _, ix := range def.Indexes {
			uses := false
			for _, k := range ix.KeyAttrs() {
				uses = uses || k.Name == kd.Name
			}
			if !uses {
				continue
			}
			for _, k := range ix.KeyAttrs() {
				if k.Name != kd.Name && k.Name != def.Hash.Name && (def.Range == nil || k.Name != def.Range.Name) {
					others = append(others, k)
				}
			}
		}
		if r.Chance(0.5) {
			cmd.Op, cmd.Actor = "Put", "injector"
			cmd.Item = g.item(name, def, g.keyFor(name, def, mt))
			cmd.Item[kd.Name] = wrong
			for _, k := range others {
				if _, ok := cmd.Item[k.Name]; !ok {
					cmd.Item[k.Name] = g.idxAttrVal(name, k.Name, k.Type)
				}
			}
		} else {
			cmd.Op, cmd.Actor = "Update", "injector"
			cmd.Key = g.keyFor(name, def, mt)
			cmd.Upd = Update{{Kind: "SET", Path: P(kd.Name), Form: "val", Val: wrong}, {Kind: "SET", Path: P("a"), Form: "val", Val: g.value("S")}}
			var cur Item
			if it := mt.Items[KeyID(def, cmd.Key)]; it != nil {
				cur = it
			}
			// the refused update also changes, in place, what the item already has
			if v, ok := cur["n"]; (ok && v.T == "N" || !ok) && r.Chance(0.6) {
				cmd.Upd = append(Update{{Kind: "ADD", Path: P("n"), Val: N("1")}}, cmd.Upd...)
			}
			if v, ok := cur["ss"]; (ok && v.T == "SS" || !ok) && r.Chance(0.5) {
				cmd.Upd = append(Update{{Kind: "ADD", Path: P("ss"), Val: SSet("added")}}, cmd.Upd...)
			}
			seen := map[string]bool{}
			for _, k := range others {
				if !seen[k.Name] {
					seen[k.Name] = true
					cmd.Upd = append(cmd.Upd, UpdAction{Kind: "SET", Path: P(k.Name), Form: "val", Val: g.idxAttrVal(name, k.Name, k.Type)})
				}
			}
		}
	case "keyextra":
		// a Key map carrying an attribute that is not part of the key schema
		if mt == nil {
			return nil
		}
		cmd.Actor = "injector"
		cmd.Key = g.keyFor(name, def, mt)
		extra := pick(r, []attrT{{"zz", "S"}, {"a", "S"}, {"n", "N"}})
		cmd.KeyExtra = Item{extra.name: g.value(extra.typ)}
		if ia := indexAttrs(def); len(ia) > 0 && r.Chance(0.4) {
			kd := pick(r, ia)
			cmd.KeyExtra = Item{kd.Name: g.idxAttrVal(name, kd.Name, kd.Type)}
		}
		switch r.Intn(4) {
		case 0:
			cmd.Op = "Get"
		case 1:
			cmd.Op = "Delete"
		default:
			cmd.Op = "Update"
			var cur Item
			if it := mt.Items[KeyID(def, cmd.Key)]; it != nil {
				cur = it
			} else {
				cur = cmd.Key
			}
			cmd.Upd = g.update(name, def, cur)
			for _, a := range cmd.Upd {
				if _, clash := cmd.KeyExtra[a.Path.Attr]; clash {
					return nil
				}
			}
		}
	case "batchpartial":
		// a batch whose n-th request is invalid: nothing of it may be applied (C08)
		if mt == nil {
			return nil
		}
		cmd.Op, cmd.Actor, cmd.T = "BatchWrite", "injector", ""
		seen := map[string]bool{}
		n := r.Range(1, 4)
		for i := 0; i < n; i++ {
			tn, tmt := g.tableOf(mc)
			if tmt == nil {
				continue
			}
			k := g.keyFor(tn, tmt.Def, tmt)
			id := tn + "|" + KeyID(tmt.Def, k)
			if seen[id] {
				continue
			}
			seen[id] = true
			if r.Chance(0.7) {
				cmd.Batch = append(cmd.Batch, BatchReq{T: tn, Put: g.item(tn, tmt.Def, k)})
			} else {
				cmd.Batch = append(cmd.Batch, BatchReq{T: tn, Del: k})
			}
		}
		if len(cmd.Batch) == 0 {
			return nil
		}
		var bad BatchReq
		k := g.keyFor(name, def, mt)
		for seen[name+"|"+KeyID(def, k)] {
			return nil
		}
		switch r.Intn(3) {
		case 0: // ill-typed primary key attribute
			it := g.item(name, def, k)
			kd := pick(r, def.KeyAttrs())
			if kd.Type == "S" {
				it[kd.Name] = N("7")
			} else {
				it[kd.Name] = S("seven")
			}
			bad = BatchReq{T: name, Put: it}
		case 1: // ill-typed (complete) index key
			ia := indexAttrs(def)
			if len(ia) == 0 {
				return nil
			}
			it := g.item(name, def, k)
			for _, kd := range ia {
				it[kd.Name] = g.idxAttrVal(name, kd.Name, kd.Type)
			}
			kd := pick(r, ia)
			if kd.Type == "N" {
				it[kd.Name] = S("five")
			} else {
				it[kd.Name] = N("5")
			}
			bad = BatchReq{T: name, Put: it}
		default: // delete with a key attribute missing
			if def.Range == nil {
				return nil
			}
			dk := k.Clone()
			delete(dk, def.Range.Name)
			bad = BatchReq{T: name, Del: dk}
		}
		pos := r.Intn(len(cmd.Batch) + 1)
		cmd.Batch = append(cmd.Batch[:pos:pos], append([]BatchReq{bad}, cmd.Batch[pos:]...)...)
	case "native":
		// the native interpreter: activation, and Go matchers registered for
		// filter expressions that later Scans reuse
		if mt == nil {
			return nil
		}
		cmd.Op, cmd.Actor = "Native", "manager"
		if !mc.Native && r.Chance(0.4) {
			cmd.Native, cmd.T = "activate", ""
			break
		}
		if r.Chance(0.12) {
			// SetInterpreter with a fresh native interpreter, or the debug switch
			cmd.Native, cmd.T = pick(r, []string{"reset", "reset", "debug", "metrics"}), ""
			if cmd.Native == "reset" {
				var keep []natFilter
				g.natFilters = keep
				g.natUpdates = nil
			}
			break
		}
		if g.P.NativeUpdaters && r.Chance(0.5) {
			// a Go updater registered under the text of an update the writers will send again
			cmd.Upd = g.update(name, def, Item{})
			cmd.Native = "updater-set"
			if g.P.Prop == "C08" && r.Chance(0.6) {
				cmd.Native = "updater-panic"
			}
			g.natUpdates = append(g.natUpdates, natUpdate{name, cmd.Upd})
			break
		}
		// (no begins_with/contains: the text is reused on other tables, whose
		// items may lack the attribute - outside the fragment)
		f := g.cond(name, def, 1)
		at := map[string]bool{}
		f.Attrs(at)
		if at["h"] || at["r"] || at["g1"] || at["g2"] || at["l1"] {
			// the text is reused on other tables, where a key or index attribute may
			// be absent or declared with another type (cross-type comparisons are
			// outside the fragment)
			return nil
		}
		cmd.Native, cmd.Filter, cmd.Verdict = "matcher", f, r.Chance(0.5)
		if g.P.Prop == "C08" && r.Chance(0.5) {
			cmd.Native = "matcher-panic"
		}
		g.natFilters = append(g.natFilters, natFilter{name, f})
	case "keyupdate":
		if mt == nil || g.avoid["update-names-key-attribute"] {
			return nil
		}
		cmd.Op, cmd.Actor = "Update", "injector"
		cmd.Key = g.keyFor(name, def, mt)
		kd := pick(r, def.KeyAttrs())
		u := g.W.uni(name)
		vals := u.HashVals
		if def.Range != nil && kd.Name == def.Range.Name {
			vals = u.RangeVals
		}
		switch r.Intn(3) {
		case 0:
			cmd.Upd = Update{{Kind: "SET", Path: P(kd.Name), Form: "val", Val: pick(r, vals)}}
		case 1:
			cmd.Upd = Update{{Kind: "REMOVE", Path: P(kd.Name)}}
		default:
			cmd.Upd = Update{{Kind: "SET", Path: P("a"), Form: "val", Val: g.value("S")}, {Kind: "SET", Path: P(kd.Name), Form: "val", Val: pick(r, vals)}}
		}
	case "bad":
		return g.bad(cmd, name, def, mt)
	default:
		panic("gen: unknown kind " + kind)
	}
	return cmd
}

func min(a, b int) int {
	if a < b {
		return a
	}
	return b
}

func (g *Gen) dropWalk(w int) {
	for i, x := range g.walks {
		if x == w {
			g.walks = append(g.walks[:i], g.walks[i+1:]...)
			return
		}
	}
}

// attrOperandCond: a condition whose right-hand operands are attributes of the
// target (n and c, both numbers there): BETWEEN bounds, IN members, comparisons.
func (g *Gen) attrOperandCond(cmd *Cmd, mt *MTable, def TableDef, key Item) {
	r := g.R
	if mt == nil || !r.Chance(0.2) {
		return
	}
	cur := mt.Items[KeyID(def, key)]
	if cur == nil || cur["n"].T != "N" || cur["c"].T != "N" {
		return
	}
	n, cc := &Path{Attr: "n"}, &Path{Attr: "c", Alias: r.Chance(0.3)}
	var e *Expr
	switch r.Intn(4) {
	case 0:
		e = &Expr{Op: "between", Path: n, Vals: []AV{N("0"), N(pick(r, numPool))}, RP: []*Path{cc, nil}}
	case 1:
		e = &Expr{Op: "between", Path: n, Vals: []AV{N(pick(r, numPool)), N("0")}, RP: []*Path{nil, cc}}
	case 2:
		e = &Expr{Op: "in", Path: n, Vals: []AV{N("0"), N(pick(r, numPool))}, RP: []*Path{cc, nil}}
	default:
		e = &Expr{Op: pick(r, []string{"<", "<=", "=", "<>", ">="}), Path: n, Vals: []AV{N("0")}, RP: []*Path{cc}}
	}
	if r.Chance(0.3) {
		e = &Expr{Op: "not", Args: []*Expr{{Op: e.Op, Path: e.Path, Vals: e.Vals, RP: e.RP, Paren: true}}}
	}
	cmd.Cond, cmd.NeedN = e, []string{"n", "c"}
}

// fnCond: a function over an attribute the target item holds (contains,
// begins_with, size) or may hold (attribute_type). Functions over an absent
// attribute are outside the fragment (appendix A), hence only on the target of
// a conditional write, under the NeedHas guard.
func (g *Gen) fnCond(cmd *Cmd, mt *MTable, def TableDef, key Item) {
	r := g.R
	if mt == nil || !r.Chance(0.15) {
		return
	}
	cur := mt.Items[KeyID(def, key)]
	if cur == nil {
		return
	}
	var cands []string
	for _, a := range sortedKeys(cur) {
		switch v := cur[a]; v.T {
		case "S", "B", "SS", "NS":
			cands = append(cands, a)
		case "L":
			if len(v.L) > 0 && (v.L[0].T == "S" || v.L[0].T == "N") {
				cands = append(cands, a)
			}
		}
	}
	if len(cands) == 0 {
		return
	}
	a := pick(r, cands)
	v := cur[a]
	p := &Path{Attr: a, Alias: r.Chance(0.3)}
	need := v.T
	var e *Expr
	switch v.T {
	case "S":
		switch r.Intn(4) {
		case 0:
			x := v.S
			if len(x) > 1 && r.Chance(0.7) {
				x = x[:1+r.Intn(len(x)-1)]
			}
			e = &Expr{Op: "begins", Path: p, Vals: []AV{S(pick(r, []string{x, x, "zz"}))}}
		case 1:
			x := v.S
			if len(x) > 1 && r.Chance(0.7) {
				x = x[1:]
			}
			e = &Expr{Op: "contains", Path: p, Vals: []AV{S(pick(r, []string{x, x, "zz"}))}}
		case 2:
			e = &Expr{Op: "size" + pick(r, []string{"=", "<>", "<", "<=", ">", ">="}), Path: p, Vals: []AV{N(fmt.Sprint(len(v.S) + r.Intn(3) - 1))}}
		default:
			e = &Expr{Op: "type", Path: p, Vals: []AV{S(pick(r, []string{"S", "S", "N", "SS"}))}}
			need = ""
		}
	case "B":
		if r.Chance(0.5) && len(v.B) > 0 {
			e = &Expr{Op: "begins", Path: p, Vals: []AV{Bin(v.B[:1]...)}}
		} else {
			e = &Expr{Op: "size" + pick(r, []string{"=", "<", ">="}), Path: p, Vals: []AV{N(fmt.Sprint(len(v.B) + r.Intn(3) - 1))}}
		}
	case "SS":
		e = &Expr{Op: "contains", Path: p, Vals: []AV{S(pick(r, []string{v.SS[0], v.SS[len(v.SS)-1], "nope"}))}}
	case "NS":
		e = &Expr{Op: "contains", Path: p, Vals: []AV{N(pick(r, []string{v.SS[0], "424242"}))}}
	case "L":
		x := v.L[0]
		if r.Chance(0.3) {
			x = S("nope")
		}
		e = &Expr{Op: "contains", Path: p, Vals: []AV{x}}
		need = "L:" + v.L[0].T
	}
	if r.Chance(0.3) {
		e.Paren = true
		e = &Expr{Op: "not", Args: []*Expr{e}}
	}
	cmd.Cond, cmd.NeedN = e, nil
	if need != "" {
		cmd.NeedHas = map[string]string{a: need}
	}
}

// biasCond: half of the time make the condition's truth on the target differ
// from its truth on some bystander (the shape the C05 statement singles out).
func (g *Gen) biasCond(cmd *Cmd, mt *MTable, def TableDef, key Item) {
	if mt == nil || len(mt.Items) < 1 || !g.R.Chance(0.5) {
		return
	}
	target := orEmpty(mt.Items[KeyID(def, key)])
	for tries := 0; tries < 8; tries++ {
		c := g.cond(cmd.T, def, 1)
		tv := c.Eval(target)
		for _, id := range sortedKeys(mt.Items) {
			if id != KeyID(def, key) && c.Eval(mt.Items[id]) != tv {
				cmd.Cond = c
				return
			}
		}
	}
}

// shape fills in a Query or Scan over the table or one of its indexes.
func (g *Gen) shape(cmd *Cmd, name string, def TableDef, query bool) {
	r := g.R
	u := g.W.uni(name)
	hash, rng := def.Hash, def.Range
	hvals, rvals := u.HashVals, u.RangeVals
	if len(def.Indexes) > 0 && r.Chance(0.5) {
		ix := pick(r, def.Indexes)
		cmd.Index = ix.Name
		hash, rng = ix.Hash, ix.Range
		hvals = idxPartVals(u, def, ix)
		if rng != nil {
			rvals = u.IdxVals[rng.Name]
			if rng.Name == def.Hash.Name {
				rvals = u.HashVals
			}
		}
	}
	if query && len(hvals) > 0 {
		v := pick(r, hvals)
		cmd.Part = &v
		cmd.HashAttr = hash.Name
		if rng != nil && r.Chance(0.5) {
			cmd.Sort = g.sortCond(name, *rng, rvals)
		}
		cmd.Back = r.Chance(0.4)
	}
	if len(g.natFilters) > 0 && r.Chance(0.35) {
		// reuse the text of a registered matcher: on its own table it must
		// dispatch, on any other table (or another client) it must not
		nf := pick(r, g.natFilters)
		for _, o := range g.natFilters {
			if o.table == name && r.Chance(0.7) {
				nf = o
			}
		}
		cmd.Filter = nf.f
	} else if r.Chance(0.4) {
		g.inFilter = true
		depth := 1
		if r.Chance(0.3) {
			depth = 2
		}
		cmd.Filter = g.cond(name, def, depth)
		g.inFilter = false
		// a filter may not name key attributes of the queried table/index in DynamoDB
		at := map[string]bool{}
		cmd.Filter.Attrs(at)
		if at[hash.Name] || (rng != nil && at[rng.Name]) {
			cmd.Filter = nil
		}
	}
}

// bad builds one deliberately failing request (fault classes F2-F4).
func (g *Gen) bad(cmd *Cmd, name string, def TableDef, mt *MTable) *Cmd {
	r := g.R
	if mt == nil && g.P.Prop != "C17" {
		return nil
	}
	cmd.Op, cmd.Actor = "Bad", "injector"
	key := g.keyFor(name, def, mt)
	kinds := []string{"key-missing", "key-type", "unused-name", "unused-value", "syntax-cond", "syntax-update", "illtyped-update", "syntax-filter", "syntax-keycond", "undefined-name"}
	cmd.Bad = pick(r, kinds)
	forceLate := r.Chance(g.P.LateFailBias)
	if forceLate {
		cmd.Bad = "illtyped-update"
	}
	brokenConds := []string{"a = ", "a = :x AND", "( a = :x", "a = :x )", "a == :x", "AND a = :x", "a = :x OR OR a = :x", "attribute_exists(a", "a BETWEEN :x", "a IN :x", "size(a) = = :x", "a = :x :x", "a $ :x"}
	switch cmd.Bad {
	case "key-missing", "key-type":
		cmd.Base = pick(r, []string{"Put", "Get", "Delete", "Update"})
		kd := pick(r, def.KeyAttrs())
		switch cmd.Bad {
		case "key-missing":
			delete(key, kd.Name)
		case "key-type":
			if kd.Type == "S" {
				key[kd.Name] = pick(r, []AV{N("1"), Bool(true), Bin(1), SSet("a")})
			} else {
				key[kd.Name] = S("1")
			}
		}
		cmd.Key = key
		if cmd.Base == "Put" {
			cmd.Item = key.Clone()
			cmd.Item["a"] = g.value("S")
			cmd.Key = nil
		}
		if cmd.Base == "Update" {
			cmd.RawExpr = "SET a = :x"
			cmd.RawVals = Item{":x": g.value("S")}
		}
	case "unused-name":
		cmd.Base = pick(r, []string{"Put", "Delete", "Update", "Scan"})
		cmd.Key, cmd.Item = key, g.item(name, def, key)
		cmd.RawName = map[string]string{"#zz": "a"}
		if cmd.Base == "Update" {
			cmd.RawExpr, cmd.RawVals = "SET a = :x", Item{":x": g.value("S")}
		}
	case "unused-value":
		cmd.Base = pick(r, []string{"Put", "Delete", "Update", "Scan"})
		cmd.Key, cmd.Item = key, g.item(name, def, key)
		cmd.RawVals = Item{":zz": S("unused")}
		if cmd.Base == "Update" {
			cmd.RawExpr = "SET a = :x"
			cmd.RawVals[":x"] = g.value("S")
		}
	case "undefined-name":
		cmd.Base = pick(r, []string{"Put", "Delete"})
		cmd.Key, cmd.Item = key, g.item(name, def, key)
		cmd.RawExpr = "#nope = :x"
		cmd.RawVals = Item{":x": S("a")}
		cmd.RawName = map[string]string{"#nope!": "a"}
	case "syntax-cond":
		cmd.Base = pick(r, []string{"Put", "Delete", "Update"})
		cmd.Key, cmd.Item = key, g.item(name, def, key)
		cmd.RawExpr = pick(r, brokenConds)
		cmd.RawVals = Item{":x": S("a")}
		if cmd.Base == "Update" {
			cmd.Upd = Update{{Kind: "SET", Path: P("a"), Form: "val", Val: g.value("S")}}
			cmd.Cond = &Expr{Op: "exists", Path: &Path{Attr: "a"}} // marker: RawExpr is the condition
		}
	case "syntax-update":
		cmd.Base = "Update"
		cmd.Key = key
		cmd.RawExpr = pick(r, []string{"SET a = ", "SET a :x", "SET = :x", "a = :x", "SET a = :x,", "REMOVE", "ADD a", "SET a = :x + "})
		cmd.RawVals = Item{":x": S("a")}
	case "illtyped-update":
		cmd.Base = "Update"
		cmd.Key = key
		cmd.RawExpr = pick(r, []string{"SET n = n + :x", "SET a = a - :x", "SET l = list_append(l, :x)", "SET b = :x, n = zz + :x"})
		cmd.RawVals = Item{":x": S("a")}
		if forceLate || r.Chance(0.4) {
			// a collection of the item is changed by an earlier action of the
			// request that a later action makes fail
			late := []struct {
				e string
				v Item
			}{
				{"ADD ss :s SET n = zz + :x", Item{":s": SSet("added"), ":x": S("a")}},
				{"DELETE ss :s SET n = zz + :x", Item{":s": SSet("m00", "a", "abc"), ":x": S("a")}},
				{"ADD ns :s SET n = zz + :x", Item{":s": NSet("7"), ":x": S("a")}},
				{"DELETE ns :s SET n = zz + :x", Item{":s": NSet("100", "1", "2"), ":x": S("a")}},
				{"SET l[0] = :x, n = zz + :x", Item{":x": S("a")}},
				{"REMOVE l[0] SET n = zz + :x", Item{":x": S("a")}},
				{"SET m.k = :x, n = zz + :x", Item{":x": S("a")}},
				{"REMOVE m.k SET n = zz + :x", Item{":x": S("a")}},
			}
			c := pick(r, late)
			// on an item that has the collection, when there is one
			attr := strings.Fields(strings.NewReplacer("[", " ", ".", " ").Replace(c.e))[1]
			if mt != nil {
				var have []string
				for _, id := range sortedKeys(mt.Items) {
					if _, ok := mt.Items[id][attr]; ok {
						have = append(have, id)
					}
				}
				if len(have) > 0 {
					cmd.Key = keyOf(def, mt.Items[pick(r, have)])
					g.hot = &hotSpot{cmd.C, name, cmd.Key.Clone(), attr}
				}
			}
			cmd.RawExpr, cmd.RawVals = c.e, c.v
		}
	case "syntax-filter":
		cmd.Base = pick(r, []string{"Scan", "QueryFilter"})
		cmd.RawExpr = pick(r, brokenConds)
		cmd.RawVals = Item{":x": S("a")}
		if cmd.Base == "QueryFilter" {
			v := pick(r, g.W.uni(name).HashVals)
			cmd.Part, cmd.HashAttr = &v, def.Hash.Name
		}
	case "syntax-keycond":
		cmd.Base = "Query"
		cmd.RawExpr = pick(r, []string{"h = ", "h = :x AND", "(h = :x", "h :x", "= :x"})
		cmd.RawVals = Item{":x": pick(r, g.W.uni(name).HashVals)}
	}
	return cmd
}
