package sim

import (
	"fmt"
	"reflect"
	"regexp"
	"sort"
	"strings"

	"github.com/aws/aws-sdk-go-v2/service/dynamodb/types"
	"github.com/aws/aws-sdk-go/service/dynamodb"
)

// Fault F5: the caller reuses memory it passed to, or received from, a call.
// A location is one mutable place inside a retained structure; poking it
// overwrites it the way SDK users do (through a pointer, a slice element or a
// map entry). Every poke registers an undo, run at the end of the simulated
// run, so that memory the library (wrongly) shares process-wide is restored
// before the next run of this worker.

type pokeLoc struct {
	desc string
	kind string // type of location, for the reach table
	do   func() (undo func())
}

var undoStack []func()

// UndoPokes restores every poked location (reverse order).
func UndoPokes() {
	for i := len(undoStack) - 1; i >= 0; i-- {
		undoStack[i]()
	}
	undoStack = nil
}

var ptrRe = regexp.MustCompile(`0x[0-9a-f]{6,}`)

// scrub removes pointer values from message text (N5).
func scrub(s string) string {
	if len(s) > 300 {
		s = s[:300]
	}
	return ptrRe.ReplaceAllString(s, "0xPTR")
}

func rootCanon(v any) string {
	switch m := v.(type) {
	case map[string]types.AttributeValue:
		return orEmpty(itemFromV2(m)).Canon()
	case map[string]*dynamodb.AttributeValue:
		return orEmpty(itemFromV1(m)).Canon()
	}
	return "?"
}

func locsOf(r root) []pokeLoc {
	var out []pokeLoc
	switch m := r.v.(type) {
	case map[string]types.AttributeValue:
		locsMapV2(r.label, m, &out)
	case map[string]*dynamodb.AttributeValue:
		locsMapV1(r.label, m, &out)
	}
	return out
}

// ---- SDK v2 ----------------------------------------------------------------

func locsMapV2(path string, m map[string]types.AttributeValue, out *[]pokeLoc) {
	if m == nil {
		return
	}
	keys := sortedKeys(m)
	for _, k := range keys {
		k := k
		locsV2(path+"."+k, m[k], out)
		*out = append(*out, pokeLoc{path + "." + k + " (entry replaced)", "map-entry", func() func() {
			old := m[k]
			m[k] = &types.AttributeValueMemberS{Value: "POKED"}
			return func() { m[k] = old }
		}})
	}
	if len(keys) > 0 {
		k := keys[len(keys)-1]
		*out = append(*out, pokeLoc{path + "." + k + " (entry deleted)", "map-delete", func() func() {
			old := m[k]
			delete(m, k)
			return func() { m[k] = old }
		}})
	}
	*out = append(*out, pokeLoc{path + ".POKED (entry added)", "map-add", func() func() {
		m["POKED"] = &types.AttributeValueMemberS{Value: "POKED"}
		return func() { delete(m, "POKED") }
	}})
}

func locsV2(path string, a types.AttributeValue, out *[]pokeLoc) {
	switch x := a.(type) {
	case *types.AttributeValueMemberS:
		*out = append(*out, pokeLoc{path + ".S", "S-target", func() func() { old := x.Value; x.Value = "POKED"; return func() { x.Value = old } }})
	case *types.AttributeValueMemberN:
		*out = append(*out, pokeLoc{path + ".N", "N-target", func() func() { old := x.Value; x.Value = "424242"; return func() { x.Value = old } }})
	case *types.AttributeValueMemberBOOL:
		*out = append(*out, pokeLoc{path + ".BOOL", "BOOL-target", func() func() { old := x.Value; x.Value = !old; return func() { x.Value = old } }})
	case *types.AttributeValueMemberNULL:
		*out = append(*out, pokeLoc{path + ".NULL", "NULL-target", func() func() { old := x.Value; x.Value = !old; return func() { x.Value = old } }})
	case *types.AttributeValueMemberB:
		if len(x.Value) > 0 {
			*out = append(*out, pokeLoc{path + ".B[0]", "B-byte", func() func() { x.Value[0] ^= 0xff; return func() { x.Value[0] ^= 0xff } }})
		}
	case *types.AttributeValueMemberSS:
		if len(x.Value) > 0 {
			*out = append(*out, pokeLoc{path + ".SS[0]", "SS-elem", func() func() { old := x.Value[0]; x.Value[0] = "POKED"; return func() { x.Value[0] = old } }})
		}
	case *types.AttributeValueMemberNS:
		if len(x.Value) > 0 {
			*out = append(*out, pokeLoc{path + ".NS[0]", "NS-elem", func() func() { old := x.Value[0]; x.Value[0] = "424242"; return func() { x.Value[0] = old } }})
		}
	case *types.AttributeValueMemberBS:
		if len(x.Value) > 0 && len(x.Value[0]) > 0 {
			*out = append(*out, pokeLoc{path + ".BS[0][0]", "BS-byte", func() func() { x.Value[0][0] ^= 0xff; return func() { x.Value[0][0] ^= 0xff } }})
		}
	case *types.AttributeValueMemberL:
		for i := range x.Value {
			i := i
			locsV2(fmt.Sprintf("%s.L[%d]", path, i), x.Value[i], out)
			*out = append(*out, pokeLoc{fmt.Sprintf("%s.L[%d] (element replaced)", path, i), "L-elem", func() func() {
				old := x.Value[i]
				x.Value[i] = &types.AttributeValueMemberS{Value: "POKED"}
				return func() { x.Value[i] = old }
			}})
		}
	case *types.AttributeValueMemberM:
		locsMapV2(path+".M", x.Value, out)
	}
}

// ---- SDK v1 ----------------------------------------------------------------

func locsMapV1(path string, m map[string]*dynamodb.AttributeValue, out *[]pokeLoc) {
	if m == nil {
		return
	}
	keys := sortedKeys(m)
	for _, k := range keys {
		k := k
		locsV1(path+"."+k, m[k], out)
		*out = append(*out, pokeLoc{path + "." + k + " (entry replaced)", "map-entry", func() func() {
			old := m[k]
			s := "POKED"
			m[k] = &dynamodb.AttributeValue{S: &s}
			return func() { m[k] = old }
		}})
	}
	if len(keys) > 0 {
		k := keys[len(keys)-1]
		*out = append(*out, pokeLoc{path + "." + k + " (entry deleted)", "map-delete", func() func() {
			old := m[k]
			delete(m, k)
			return func() { m[k] = old }
		}})
	}
	*out = append(*out, pokeLoc{path + ".POKED (entry added)", "map-add", func() func() {
		s := "POKED"
		m["POKED"] = &dynamodb.AttributeValue{S: &s}
		return func() { delete(m, "POKED") }
	}})
}

func locsV1(path string, a *dynamodb.AttributeValue, out *[]pokeLoc) {
	if a == nil {
		return
	}
	if a.S != nil {
		*out = append(*out, pokeLoc{path + ".*S", "S-target", func() func() { old := *a.S; *a.S = "POKED"; return func() { *a.S = old } }})
		*out = append(*out, pokeLoc{path + ".S (field)", "S-field", func() func() { old := a.S; s := "POKED"; a.S = &s; return func() { a.S = old } }})
	}
	if a.N != nil {
		*out = append(*out, pokeLoc{path + ".*N", "N-target", func() func() { old := *a.N; *a.N = "424242"; return func() { *a.N = old } }})
	}
	if a.BOOL != nil {
		*out = append(*out, pokeLoc{path + ".*BOOL", "BOOL-target", func() func() { old := *a.BOOL; *a.BOOL = !old; return func() { *a.BOOL = old } }})
	}
	if a.NULL != nil {
		*out = append(*out, pokeLoc{path + ".*NULL", "NULL-target", func() func() { old := *a.NULL; *a.NULL = !old; return func() { *a.NULL = old } }})
	}
	if len(a.B) > 0 {
		*out = append(*out, pokeLoc{path + ".B[0]", "B-byte", func() func() { a.B[0] ^= 0xff; return func() { a.B[0] ^= 0xff } }})
	}
	if len(a.SS) > 0 && a.SS[0] != nil {
		*out = append(*out, pokeLoc{path + ".*SS[0]", "SS-target", func() func() { old := *a.SS[0]; *a.SS[0] = "POKED"; return func() { *a.SS[0] = old } }})
		*out = append(*out, pokeLoc{path + ".SS[0] (element)", "SS-elem", func() func() { old := a.SS[0]; s := "POKED"; a.SS[0] = &s; return func() { a.SS[0] = old } }})
	}
	if len(a.NS) > 0 && a.NS[0] != nil {
		*out = append(*out, pokeLoc{path + ".*NS[0]", "NS-target", func() func() { old := *a.NS[0]; *a.NS[0] = "424242"; return func() { *a.NS[0] = old } }})
	}
	if len(a.BS) > 0 && len(a.BS[0]) > 0 {
		*out = append(*out, pokeLoc{path + ".BS[0][0]", "BS-byte", func() func() { a.BS[0][0] ^= 0xff; return func() { a.BS[0][0] ^= 0xff } }})
	}
	for i := range a.L {
		i := i
		locsV1(fmt.Sprintf("%s.L[%d]", path, i), a.L[i], out)
		*out = append(*out, pokeLoc{fmt.Sprintf("%s.L[%d] (element replaced)", path, i), "L-elem", func() func() {
			old := a.L[i]
			s := "POKED"
			a.L[i] = &dynamodb.AttributeValue{S: &s}
			return func() { a.L[i] = old }
		}})
	}
	if a.M != nil {
		locsMapV1(path+".M", a.M, out)
	}
}

// ---- shared by both drivers --------------------------------------------------

func mapIdentity(v any) uintptr {
	rv := reflect.ValueOf(v)
	if rv.Kind() != reflect.Map || rv.IsNil() {
		return 0
	}
	return rv.Pointer()
}

func pokeKept(kept map[int]*retained, stats map[string]int, sdk string, ref int, dir string, slot int) string {
	r := kept[ref]
	if r == nil {
		return ""
	}
	roots := r.in
	if dir == "out" {
		roots = r.out
	}
	var locs []pokeLoc
	for _, rt := range roots {
		locs = append(locs, locsOf(rt)...)
	}
	if len(locs) == 0 {
		return ""
	}
	if slot < 0 {
		slot = -slot
	}
	if slot >= 40 {
		// the upper slots scribble through shared pointers and backing arrays only
		// (what a shallow copy leaves shared), and through the key first
		var deep, key []pokeLoc
		for _, l := range locs {
			if strings.HasSuffix(l.kind, "-target") || strings.HasSuffix(l.kind, "-byte") {
				deep = append(deep, l)
				if strings.Contains(l.desc, "Key.") {
					key = append(key, l)
				}
			}
		}
		if len(key) > 0 && slot >= 52 {
			locs = key
		} else if len(deep) > 0 {
			locs = deep
		}
	}
	l := locs[slot%len(locs)]
	undoStack = append(undoStack, l.do())
	if dir == "out" {
		r.outPoked = true
	} else {
		r.inPoked = true
	}
	// a paginator hands the LastEvaluatedKey it received back verbatim: the same
	// map is an output of one command and an input of the next. A poke through
	// either name is a poke of both.
	for _, rt := range roots {
		id := mapIdentity(rt.v)
		if id == 0 {
			continue
		}
		for _, o := range kept {
			for _, ort := range o.out {
				if mapIdentity(ort.v) == id {
					o.outPoked = true
				}
			}
		}
	}
	stats[sdk+"/"+dir+"/"+l.kind]++
	return l.desc
}

func frozenKept(kept map[int]*retained) []string {
	var bad []string
	ids := make([]int, 0, len(kept))
	for id := range kept {
		ids = append(ids, id)
	}
	sort.Ints(ids)
	for _, id := range ids {
		r := kept[id]
		if r.outPoked {
			continue
		}
		for i, rt := range r.out {
			if now := rootCanon(rt.v); now != r.outCanon[i] {
				bad = append(bad, fmt.Sprintf("output %s of command #%d changed after a later call: was %s now %s", rt.label, id, r.outCanon[i], now))
			}
		}
	}
	return bad
}

func (d *V2) Poke(ref int, dir string, slot int) string {
	return pokeKept(d.kept, d.stats, "v2", ref, dir, slot)
}
func (d *V2) Frozen() []string { return frozenKept(d.kept) }
func (d *V1) Poke(ref int, dir string, slot int) string {
	return pokeKept(d.kept, d.stats, "v1", ref, dir, slot)
}
func (d *V1) Frozen() []string { return frozenKept(d.kept) }
