package sim

import (
	"fmt"
	"sort"
	"strings"
)

// Fail is one oracle rule that did not hold (DESIGN.md appendix B).
type Fail struct {
	Rule string `json:"rule"`
	Msg  string `json:"msg"`
}

func (f Fail) Prop() string { return f.Rule[:3] }

// Quiet marks a run that must stop without a verdict: the implementation's
// answer is outside what any claimed property fixes and the model can no
// longer follow it.
const Quiet = "quiet"

func isSingle(op string) bool {
	return op == "Put" || op == "Update" || op == "Delete" || op == "Get"
}

func itemsEq(a, b Item) bool { return a.Canon() == b.Canon() }

// CheckOutcome compares the response of one command with the model's verdict.
// quiet != "" asks the engine to end the run without a verdict.
func CheckOutcome(cmd *Cmd, ex Expect, got Outcome, mt *MTable) (fails []Fail, quiet string) {
	add := func(rule, format string, a ...any) {
		fails = append(fails, Fail{rule, fmt.Sprintf(format, a...)})
	}
	if got.Class == "never-returns" || got.Class == "panic-unlock" {
		add("C08.alive", "%s: %s", got.Class, got.Err)
		add("C11.dead", "%s: %s", got.Class, got.Err)
		return fails, ""
	}
	if ex.Unspecified {
		return nil, "outcome not fixed by any claimed property"
	}
	if ex.AnyFail {
		if got.OK() {
			if ex.MayAccept {
				return nil, "" // engine decides from the state whether anything happened
			}
			add(ruleForReject(cmd), "request must be rejected, call succeeded")
		}
		return fails, ""
	}
	want := ex.Out
	// ---- failure emulation (C15)
	if want.Class == "internal-server" || want.Class == "forced" {
		if got.Class != want.Class {
			add("C15.err", "failure condition active: expected the configured error (%s), got %s %s", want.Class, got.Class, got.Err)
		}
		return fails, ""
	}
	if cmd.Op == "BatchWrite" && want.Unproc != nil {
		// C15.batch: internal-server condition active for the whole call
		if !got.OK() {
			// the statement fixes only applied-or-unprocessed; an error answer drops requests
			add("C15.batch", "batch write under emulated internal-server failure returned %s instead of reporting its requests as unprocessed", got.Class)
			return fails, ""
		}
		if a, b := batchCanon(got.Unproc), batchCanon(want.Unproc); !sameStrings(a, b) {
			add("C15.batch", "unprocessed %v, requested %v", a, b)
		}
		return fails, ""
	}
	// ---- classes
	if want.Class != got.Class {
		switch {
		case want.Class == "ccf" || got.Class == "ccf":
			if want.Class == "ccf" && got.OK() || want.Class == "ok" && got.Class == "ccf" {
				add("C05.iff", "model verdict on the target item: %s; implementation: %s", want.Class, got.Class)
			} else if want.Class == "ccf" {
				add("C05.class", "refused conditional write must be ConditionalCheckFailed, got %s %s", got.Class, got.Err)
			} else {
				add(mainRule(cmd), "expected %s, got %s %s", want.Class, got.Class, got.Err)
			}
		case want.Class == "not-found" || want.Class == "in-use":
			add("C18.class", "expected %s, got %s %s", want.Class, got.Class, got.Err)
		case want.Class == "validation":
			if cmd.Op == "Bad" || isSingle(cmd.Op) && mt != nil && keyReject(cmd, mt) {
				add("C13.reject", "malformed key must be rejected with a validation error, got %s %s", got.Class, got.Err)
			} else if got.OK() {
				if cmd.Op == "Update" {
					return nil, "key-update-accepted"
				}
				return nil, "implementation accepted a request the model rejects (" + cmd.Op + "); outside the claimed properties"
			}
			// another failure class for a rejected request: "rejected" is all the statement says
		case want.Class == "ok":
			add(mainRule(cmd), "expected success, got %s %s", got.Class, got.Err)
			if got.Class == "validation" && mt != nil && len(cmd.KeyExtra) == 0 && (cmd.Op == "Get" || (cmd.Op == "Delete" && cmd.Cond == nil)) &&
				keyProblem(mt.Def.KeyAttrs(), cmd.Key, true) == "" {
				// a request that consists of a key only: the key is what was refused
				add("C13.accept", "%s refused the well-formed key %s (%s): every value of the declared key types identifies an item", cmd.Op, cmd.Key.Canon(), got.Err)
			}
		default:
			add(mainRule(cmd), "expected %s, got %s %s", want.Class, got.Class, got.Err)
		}
		return fails, ""
	}
	if want.Class == "ccf" {
		if want.HasCCF && want.CCFItem != nil {
			if !got.HasCCF || !itemsEq(got.CCFItem, want.CCFItem) {
				add("C05.class", "refusal must carry the stored item %s, carried %s", want.CCFItem.Canon(), got.CCFItem.Canon())
			}
		}
		return fails, ""
	}
	if want.Class != "ok" {
		return fails, ""
	}
	// ---- payloads of successful calls
	switch cmd.Op {
	case "Get":
		if len(cmd.Proj) > 0 {
			if !projOK(got.Item, want.Item, cmd.Proj) {
				add("C01.get", "GetItem with projection %v returned %s, model %s", cmd.Proj, got.Item.Canon(), want.Item.Canon())
			}
			break
		}
		if !itemsEq(got.Item, want.Item) {
			add("C01.get", "GetItem returned %s, model %s", got.Item.Canon(), want.Item.Canon())
		}
	case "Update", "Delete":
		if cmd.RetVal != "" {
			break // another ReturnValues than the harness default: what comes back is not compared
		}
		if !itemsEq(got.Item, want.Item) {
			add("C01.ret", "%s returned %s, model %s", cmd.Op, got.Item.Canon(), want.Item.Canon())
		}
	case "Query", "Scan":
		g, w := canonSorted(got.Items), canonSorted(want.Items)
		if !sameStrings(g, w) {
			add("C02.set", "%s returned %s, model %s", cmd.Op, brief(g), brief(w))
		} else if cmd.Op == "Query" && mt != nil {
			rng := mt.Def.Range
			if cmd.Index != "" {
				if ix := mt.Def.index(cmd.Index); ix != nil {
					rng = ix.Range
				}
			}
			if !orderOK(got.Items, rng, cmd.Back) {
				add("C02.order", "Query result not ordered by sort key (backward=%v, sort key type %s): %s", cmd.Back, sortKeyDesc(got.Items, rng), brief(canonSeq(got.Items)))
			}
		}
		if got.Count != len(got.Items) {
			add("C02.count", "Count %d, %d items returned", got.Count, len(got.Items))
		}
		if got.LEK != nil {
			add("C04.live", "read without Limit returned a LastEvaluatedKey")
		}
	case "Describe", "Create", "IndexCreate", "IndexDrop", "Drop":
		if got.Desc != nil && want.Desc != nil {
			if d := descDiff(got.Desc, want.Desc); d != "" {
				rule := "C18.desc"
				if strings.HasPrefix(d, "index ItemCount") {
					rule = "C03.count"
				}
				add(rule, "%s: %s", cmd.Op, d)
			}
		}
	case "BatchWrite":
		if len(got.UnprocEmpty) != 0 {
			add("C19.write", "UnprocessedItems names %v without a single request (a caller looping until the map is empty never ends)", got.UnprocEmpty)
		}
		if len(got.Unproc) != 0 {
			add("C19.write", "successful batch with no failure active reported unprocessed requests %v", batchCanon(got.Unproc))
		}
	case "BatchGet":
		for _, t := range sortedKeys(want.Resp) {
			g, w := canonSorted(got.Resp[t]), canonSorted(want.Resp[t])
			if len(cmd.Proj) > 0 {
				// the projection names the key attributes: items pair up by key
				ok := len(got.Resp[t]) == len(want.Resp[t])
				for _, wi := range want.Resp[t] {
					found := false
					for _, gi := range got.Resp[t] {
						found = found || projOK(gi, wi, cmd.Proj)
					}
					ok = ok && found
				}
				if !ok {
					add("C19.get", "BatchGetItem %s with projection %v returned %s, individual gets %s", t, cmd.Proj, brief(g), brief(w))
				}
				continue
			}
			if !sameStrings(g, w) {
				add("C19.get", "BatchGetItem %s returned %s, individual gets %s", t, brief(g), brief(w))
			}
		}
		for t := range got.Resp {
			if _, ok := want.Resp[t]; !ok && len(got.Resp[t]) > 0 {
				add("C19.get", "BatchGetItem returned items for table %s that was not requested", t)
			}
		}
		if len(got.UnprocEmpty) != 0 {
			add("C19.get", "UnprocessedKeys names %v without a single key (a caller looping until the map is empty never ends)", got.UnprocEmpty)
		}
		absent := 0
		for _, uk := range got.UnprocKeys {
			stored := false
			for _, it := range want.Resp[uk.T] {
				same := len(uk.Key) > 0
				for a, v := range uk.Key {
					same = same && it[a].Canon() == v.Canon()
				}
				stored = stored || same
			}
			if stored {
				add("C19.get", "BatchGetItem reported the key %s of a stored item of %s as unprocessed with no failure active", uk.Key.Canon(), uk.T)
			} else {
				absent++
			}
		}
		if absent != 0 {
			add("C19.get", "BatchGetItem reported %d unprocessed key(s) with no failure active, none of which has a stored item (first: %s)", absent, got.UnprocKeys[0].Key.Canon())
		}
	}
	return fails, ""
}

func canonSeq(items []Item) []string {
	out := make([]string, len(items))
	for i, it := range items {
		out[i] = it.Canon()
	}
	return out
}

func keyReject(cmd *Cmd, mt *MTable) bool {
	switch cmd.Op {
	case "Put":
		return keyProblem(mt.Def.KeyAttrs(), cmd.Item, false) != ""
	case "Get", "Delete", "Update":
		p := keyProblem(mt.Def.KeyAttrs(), cmd.Key, true)
		return p != "" && p != "extra"
	}
	return false
}

func ruleForReject(cmd *Cmd) string {
	switch cmd.Bad {
	case "key-missing", "key-type":
		return "C13.reject"
	}
	// strictness of the expression front end is C09/C16 (not claimed): what is
	// claimed is only that a failing call leaves no trace. Success of a request
	// that had to fail is reported under the rule of the operation.
	return "C18.class"
}

func mainRule(cmd *Cmd) string {
	switch cmd.Op {
	case "Get":
		return "C01.get"
	case "Put", "Update", "Delete":
		return "C01.ret"
	case "Query", "Scan":
		return "C02.set"
	case "Open", "Resume":
		return "C04.page"
	case "BatchWrite":
		return "C19.write"
	case "BatchGet":
		return "C19.get"
	case "Create", "Drop", "Describe", "IndexCreate", "IndexDrop", "Clear":
		return "C18.class"
	case "Transact":
		return "C15.err"
	}
	return "C01.ret"
}

func descDiff(got, want *TableDesc) string {
	if got.Keys != want.Keys {
		return fmt.Sprintf("key schema %q, declared %q", got.Keys, want.Keys)
	}
	if fmt.Sprint(got.Indexes) != fmt.Sprint(want.Indexes) {
		return fmt.Sprintf("indexes %v, model %v", got.Indexes, want.Indexes)
	}
	if got.ItemCount != want.ItemCount {
		return fmt.Sprintf("ItemCount %d, model %d", got.ItemCount, want.ItemCount)
	}
	for _, n := range sortedKeys(want.IdxCount) {
		if c, ok := got.IdxCount[n]; ok && c >= 0 && c != want.IdxCount[n] {
			return fmt.Sprintf("index ItemCount of %s %d, model %d", n, c, want.IdxCount[n])
		}
	}
	return ""
}

func batchCanon(rs []BatchReq) []string {
	out := make([]string, len(rs))
	for i, r := range rs {
		if r.Put != nil {
			out[i] = r.T + " put " + r.Put.Canon()
		} else {
			out[i] = r.T + " del " + r.Del.Canon()
		}
	}
	sort.Strings(out)
	return out
}

// StateRules maps a difference between the observed state and the model,
// seen right after cmd succeeded on client c, to the rules it violates.
func StateRules(cmd *Cmd, client int, d Diff, touched map[string]bool) []string {
	var rules []string
	other := client != cmd.C || (len(touched) > 0 && !touched[d.Table])
	switch d.Comp {
	case "idx-scan", "idx-part":
		// reading through the index returned the wrong items: C03's mirror
		// clause, and C02's "precisely the items of the addressed index"
		rules = append(rules, "C03.view", "C02.set")
	case "idx-order":
		rules = append(rules, "C02.order")
	case "idx-count":
		rules = append(rules, "C03.count")
	case "desc":
		rules = append(rules, "C18.desc")
	case "count":
		rules = append(rules, "C18.desc")
	case "exists":
		rules = append(rules, "C18.class")
	case "order":
		rules = append(rules, "C02.order")
	case "get", "scan", "part":
		switch cmd.Op {
		case "Put", "Update", "Delete", "Get":
			rules = append(rules, "C01.state")
		case "BatchWrite", "BatchGet":
			rules = append(rules, "C19.write")
		case "Toggle":
			rules = append(rules, "C15.undo")
		case "Create", "Drop", "Clear", "IndexCreate", "IndexDrop", "Describe":
			rules = append(rules, "C18.empty")
		default:
			rules = append(rules, "C01.state")
		}
		if d.Comp == "part" || d.Comp == "scan" {
			rules = append(rules, "C02.set")
		}
	}
	switch cmd.Op {
	case "Poke":
		if cmd.Dir == "in" {
			rules = []string{"C14.in"}
		} else {
			rules = []string{"C14.out"}
		}
	case "Clear", "Drop", "Create":
		if d.Comp != "desc" && d.Comp != "count" && d.Comp != "exists" {
			rules = append(rules, "C18.empty")
		}
	case "Toggle":
		rules = append(rules, "C15.undo")
	}
	if other {
		rules = append(rules, "C18.isolate")
	}
	return uniq(rules)
}

func uniq(ss []string) []string {
	sort.Strings(ss)
	return dedup(ss)
}

// CheckKeyInvariant: C13.invariant, black-box - every item retrievable under
// key k carries exactly k as its key attributes, and every scanned item is
// retrievable under its own key attributes.
func CheckKeyInvariant(def TableDef, u *TableUni, ot *ObsTable) []Fail {
	var fails []Fail
	if ot == nil || ot.Scan.Class != "ok" {
		return nil
	}
	for _, k := range u.KeysOf(def) {
		got := ot.Gets[k.Canon()]
		if got == "!validation" {
			// the observer's GetItem consists of a key of the declared types only
			fails = append(fails, Fail{"C13.accept", fmt.Sprintf("GetItem refused the well-formed key %s: every value of the declared key types identifies an item", k.Canon())})
			continue
		}
		if got == "<none>" || strings.HasPrefix(got, "!") {
			continue
		}
		// find the item in the scan with this canon to inspect its attributes
		listed := false
		for _, it := range ot.Scan.Items {
			if it.Canon() == got {
				listed = true
				if keyOf(def, it).Canon() != k.Canon() {
					fails = append(fails, Fail{"C13.invariant", fmt.Sprintf("item retrievable under %s carries key attributes %s", k.Canon(), keyOf(def, it).Canon())})
				}
			}
		}
		if !listed {
			fails = append(fails, Fail{"C13.ident", fmt.Sprintf("the item retrievable under %s (%s) is not among the items the table lists", k.Canon(), got)})
		}
	}
	uni := map[string]bool{}
	for _, k := range u.KeysOf(def) {
		uni[k.Canon()] = true
	}
	seen := map[string]int{}
	for _, it := range ot.Scan.Items {
		kc := keyOf(def, it).Canon()
		seen[kc]++
		if keyProblem(def.KeyAttrs(), keyOf(def, it), false) != "" {
			fails = append(fails, Fail{"C13.invariant", fmt.Sprintf("the table lists an item without well-typed key attributes: %s", it.Canon())})
			continue
		}
		if got, ok := ot.Gets[kc]; ok && uni[kc] && !strings.HasPrefix(got, "!") && got != it.Canon() {
			fails = append(fails, Fail{"C13.ident", fmt.Sprintf("the table lists %s, but its key retrieves %s", it.Canon(), got)})
		}
	}
	for k, n := range seen {
		if n > 1 {
			fails = append(fails, Fail{"C13.ident", fmt.Sprintf("%d scanned items carry the same key %s", n, k)})
		}
	}
	return fails
}
