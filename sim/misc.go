package sim

import (
	"fmt"
	"hash/fnv"
	"strings"

	"github.com/truora/minidyn/simrt"
)

// Hash64 hashes a string (FNV-1a).
func Hash64(s string) uint64 {
	h := fnv.New64a()
	_, _ = h.Write([]byte(s))
	return h.Sum64()
}

// MapStats returns the map-order seam counters of this process.
func MapStats() (calls, permuted, uncontrolled uint64) {
	return simrt.CntMapCalls, simrt.CntMapPermuted, simrt.CntUncontrolled
}

// Nontrivial: the run contains at least one event relevant to the property.
func Nontrivial(prop string, r *RunResult) bool {
	p := r.Probes
	switch prop {
	case "C01":
		return p["op-Put"]+p["op-Update"]+p["op-Delete"] >= 2 && p["op-Get"]+p["op-Update"]+p["op-Delete"] >= 1
	case "C02":
		return p["op-Query"]+p["op-Scan"] >= 1 && p["op-Put"] >= 1
	case "C03":
		return p["op-Put"]+p["op-Update"]+p["op-Delete"] >= 2
	case "C04":
		return p["walk-quiescent-complete"]+p["walk-interfering-complete"] >= 1
	case "C05":
		n := 0
		for k, v := range p {
			if len(k) > 12 && k[:12] == "conditional-" {
				n += v
			}
		}
		return n >= 1
	case "C08":
		return p["failed-Put"]+p["failed-Update"]+p["failed-Delete"]+p["failed-Bad"]+p["failed-BatchWrite"]+p["failed-Get"] >= 1
	case "C13":
		return p["op-Put"]+p["op-Update"] >= 2
	case "C14":
		return r.Faults["poke-in"]+r.Faults["poke-out"] >= 1
	case "C15":
		return r.Faults["call-failed-internal-server"]+r.Faults["call-failed-forced"] >= 1 || r.Faults["toggle-internal_server"] >= 1
	case "C17":
		return r.NSteps >= 6
	case "C18":
		return p["op-Create"]+p["op-Drop"]+p["op-Clear"]+p["op-IndexCreate"]+p["op-IndexDrop"] >= 2
	case "C19":
		return p["op-BatchWrite"]+p["op-BatchGet"] >= 1
	case "C11":
		return r.Faults["context-switches"] >= 3 && p["ops"] >= 4
	}
	return r.NSteps > 2
}

// RuleText says how cases are generated and what makes one non-trivial.
func RuleText(prop string) string {
	common := "one case = one seeded run: a world (clients of both SDKs, tables, indexes) and a plan of abstract commands drawn adaptively from the model state by the run's PRNG (swarm-configured mix, faults placed by the injector), executed against the real library and checked after every step against the reference model; distinct = distinct plan (hash of the command list); "
	nt := map[string]string{
		"C01": "non-trivial = at least two successful-or-refused writes and one reading operation on single items",
		"C02": "non-trivial = at least one Query or Scan issued over a table that received a put",
		"C03": "non-trivial = at least two single-item writes on a table that has secondary indexes",
		"C04": "non-trivial = at least one paginated walk driven to completion",
		"C05": "non-trivial = at least one conditional write evaluated",
		"C08": "non-trivial = at least one data call that returned an error or aborted",
		"C13": "non-trivial = at least two writes over the adversarial key universe",
		"C14": "non-trivial = at least one poke of a retained input or output structure",
		"C15": "non-trivial = at least one data call issued while a failure condition was active",
		"C17": "non-trivial = at least three commands executed on both SDK clients in lock-step",
		"C18": "non-trivial = at least two table lifecycle commands",
		"C19": "non-trivial = at least one batch call executed",
	}
	if prop == "C11" {
		return "one case = one seeded concurrent run: a set-up prefix, then 2-4 real goroutines each executing 1-4 commands against one shared client of the instrumented library, parked and released one at a time at lock operations and instrumented statements by the simulator's scheduler (non-pre-emptive random, PCT with 1-3 pre-emption points, or random switching with period 2..512, drawn per run); then an observer reads every table. Checked: porcupine linearizability of the recorded history (batches as per-request operations) against the reference model, deadlock / leaked lock / overrun detection, vector-clock data-race detection over instrumented field accesses of Client, Table, index, Native, Language, keySchema. distinct = distinct (set-up, task lists, context-switch signature); non-trivial = at least 4 operations and at least 3 context switches."
	}
	excl := " Not generated (outside the statements, DESIGN.md 3.4): index creation under an existing name, duplicate keys in one batch, table names shorter than 3 characters, queries naming a missing index, expression forms outside appendix A."
	return common + nt[prop] + "." + excl
}

// RuleTextC11 is a no-op hook kept for symmetry.
func RuleTextC11() {}

// fullKey is the Key map a request carries: the key attributes plus, for the
// key-extra fault, attributes that are not part of the key schema.
func fullKey(cmd *Cmd) Item {
	if len(cmd.KeyExtra) == 0 {
		return cmd.Key
	}
	k := cmd.Key.Clone()
	for n, v := range cmd.KeyExtra {
		k[n] = v
	}
	return k
}

// FilterText is the filter expression text a command sends (placeholders are
// numbered after those of the key condition, as the drivers render them).
func FilterText(cmd *Cmd) string {
	if cmd.Filter == nil {
		return ""
	}
	b := NewBinder()
	if cmd.Part != nil {
		renderKeyCond(b, cmd.HashAttr, *cmd.Part, cmd.Sort)
	}
	return cmd.Filter.Render(b)
}

// Tier is "quick" or "thorough": the thorough tier explores larger bounds.
var Tier = "quick"

// UpdText is the update expression text a command sends.
func UpdText(cmd *Cmd) string {
	if cmd.Upd == nil {
		return ""
	}
	return cmd.Upd.Render(NewBinder())
}

// projection renders the ProjectionExpression of a Get or BatchGet.
func projection(cmd *Cmd) (string, map[string]string) {
	if len(cmd.Proj) == 0 || (cmd.Op != "Get" && cmd.Op != "BatchGet") {
		return "", nil
	}
	if !cmd.ProjNames {
		return strings.Join(cmd.Proj, ", "), nil
	}
	names := map[string]string{}
	var parts []string
	for i, a := range cmd.Proj {
		p := fmt.Sprintf("#p%d", i)
		names[p] = a
		parts = append(parts, p)
	}
	return strings.Join(parts, ", "), names
}

// projOK: what a read with a projection returned for one item. The projected
// attributes the item has must be there with their values; attributes beyond
// the projection may be there too (the library returns whole items; a
// projection is an optimisation of the transfer, not part of any claimed
// property), nothing else.
func projOK(got, want Item, proj []string) bool {
	if want == nil {
		return len(got) == 0
	}
	for a, v := range got {
		w, ok := want[a]
		if !ok || w.Canon() != v.Canon() {
			return false
		}
	}
	for _, a := range proj {
		if w, ok := want[a]; ok {
			if g, has := got[a]; !has || g.Canon() != w.Canon() {
				return false
			}
		}
	}
	return true
}

// uniqueIndexName keeps an index that a table description lists more than once
// visible: a description is compared as name -> schema, and a second entry
// under a name already seen would silently replace the first. The set of
// indexes a description reports has each index once (C18).
func uniqueIndexName(d *TableDesc, n string) string {
	for {
		if _, seen := d.Indexes[n]; !seen {
			return n
		}
		n += " (listed again)"
	}
}
