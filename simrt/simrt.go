// Package simrt is the runtime linked into the instrumented scratch copy of
// truora/minidyn by /verif/rewriter. It owns the three sources of
// nondeterminism the library has: map iteration order, mutex wake-up order and
// goroutine scheduling. It is stdlib-only and is never part of /repo.
//
// Outside a run (BeginRun not called) it is pass-through: MapKeys returns the
// keys sorted, mutex operations go to the real mutex, Step and Access do
// nothing. That mode is what the repository's own suite runs under in the
// instrumentation self-test.
package simrt

import (
	"fmt"
	"reflect"
	"sort"
	"sync"
	"unsafe"
)

// Order modes for MapKeys.
const (
	OrderSorted   = 0
	OrderReversed = 1
	OrderPerm     = 2
)

// ErrWouldBlock is the panic value raised in a step-atomic run (no scheduler)
// when a call tries to acquire a mutex that is already held: with one caller
// that call can never return.
type ErrWouldBlock struct{ Site uint32 }

func (e ErrWouldBlock) Error() string {
	return fmt.Sprintf("simrt: lock at site %d can never be acquired (mutex held, no other task)", e.Site)
}

// ErrBadUnlock is raised instead of the Go runtime's unrecoverable
// "unlock of unlocked mutex" fatal error.
type ErrBadUnlock struct{ Site uint32 }

func (e ErrBadUnlock) Error() string {
	return fmt.Sprintf("simrt: unlock of unlocked mutex at site %d", e.Site)
}

type abortSentinel struct{}

// IsAbort tells whether a recovered panic value is the scheduler unwinding a
// task (deadlock or overrun): harness code that recovers panics must re-panic it.
func IsAbort(r any) bool { _, ok := r.(abortSentinel); return ok }

// ---------------------------------------------------------------------------
// run state (one simulation per process at a time)

type mutexState struct {
	held    bool
	readers int
	owner   *task
	clock   vclock
	rclock  vclock // join of readers' clocks at RUnlock
}

var (
	runActive bool
	runSeed   uint64
	runMode   int
	mapCalls  uint64
	// Counters (coverage only).
	CntMapCalls     uint64
	CntMapPermuted  uint64
	CntUncontrolled uint64
	CntLocks        uint64
	CntSteps        uint64
	CntAccess       uint64

	mutexes map[unsafe.Pointer]*mutexState
	sched   *Sched
)

// BeginRun starts a simulated run: map order follows mode (seeded by seed),
// mutex ownership is tracked from scratch.
func BeginRun(seed uint64, mode int) {
	runActive = true
	runSeed = seed
	runMode = mode
	mapCalls = 0
	mutexes = map[unsafe.Pointer]*mutexState{}
	sched = nil
}

// EndRun returns to pass-through mode.
func EndRun() {
	runActive = false
	mutexes = nil
	sched = nil
}

// SetOrder changes the map order mode inside a run (used by twin worlds that
// want independent permutations per side).
func SetOrder(seed uint64, mode int) { runSeed = seed; runMode = mode }

func splitmix(x uint64) uint64 {
	x += 0x9e3779b97f4a7c15
	x = (x ^ (x >> 30)) * 0xbf58476d1ce4e5b9
	x = (x ^ (x >> 27)) * 0x94d049bb133111eb
	return x ^ (x >> 31)
}

// ---------------------------------------------------------------------------
// map order

func sortKeys[K comparable](keys []K) bool {
	switch ks := any(keys).(type) {
	case []string:
		sort.Strings(ks)
		return true
	case []float64:
		sort.Float64s(ks)
		return true
	case []int:
		sort.Ints(ks)
		return true
	}
	if len(keys) == 0 {
		return true
	}
	switch reflect.TypeOf(keys[0]).Kind() {
	case reflect.String:
		sort.Slice(keys, func(i, j int) bool { return reflect.ValueOf(keys[i]).String() < reflect.ValueOf(keys[j]).String() })
	case reflect.Int, reflect.Int8, reflect.Int16, reflect.Int32, reflect.Int64:
		sort.Slice(keys, func(i, j int) bool { return reflect.ValueOf(keys[i]).Int() < reflect.ValueOf(keys[j]).Int() })
	case reflect.Uint, reflect.Uint8, reflect.Uint16, reflect.Uint32, reflect.Uint64, reflect.Uintptr:
		sort.Slice(keys, func(i, j int) bool { return reflect.ValueOf(keys[i]).Uint() < reflect.ValueOf(keys[j]).Uint() })
	case reflect.Float32, reflect.Float64:
		sort.Slice(keys, func(i, j int) bool { return reflect.ValueOf(keys[i]).Float() < reflect.ValueOf(keys[j]).Float() })
	default:
		return false
	}
	return true
}

// MapKeys returns the keys of m in the order the current run dictates.
func MapKeys[K comparable, V any](site uint32, m map[K]V) []K {
	keys := make([]K, 0, len(m))
	for k := range m {
		keys = append(keys, k)
	}
	if !sortKeys(keys) {
		CntUncontrolled++
		return keys
	}
	if !runActive {
		return keys
	}
	CntMapCalls++
	switch runMode {
	case OrderReversed:
		for i, j := 0, len(keys)-1; i < j; i, j = i+1, j-1 {
			keys[i], keys[j] = keys[j], keys[i]
		}
	case OrderPerm:
		mapCalls++
		if len(keys) > 1 {
			CntMapPermuted++
			x := splitmix(runSeed ^ uint64(site)*0x9e3779b1 ^ mapCalls*0x85ebca77c2b2ae63)
			for i := len(keys) - 1; i > 0; i-- {
				x = splitmix(x)
				j := int(x % uint64(i+1))
				keys[i], keys[j] = keys[j], keys[i]
			}
		}
	}
	return keys
}

// ---------------------------------------------------------------------------
// vector clocks

type vclock []uint32

func (v vclock) copyOf() vclock { c := make(vclock, len(v)); copy(c, v); return c }
func (v vclock) join(o vclock) {
	for i := range o {
		if i < len(v) && o[i] > v[i] {
			v[i] = o[i]
		}
	}
}

// ---------------------------------------------------------------------------
// scheduler

// Scheduling modes.
const (
	ModeNonPreemptive = 0 // switch only at lock operations and task end
	ModePCT           = 1 // switch at lock operations and at d chosen step numbers
	ModeRandom        = 2 // switch at every step with probability 1/Period
	ModeReplay        = 3 // follow Schedule exactly
)

// Decision is one context switch: at global step Step control went to task To.
type Decision struct {
	Step uint64 `json:"step"`
	To   int    `json:"to"`
	Kind int    `json:"kind"` // 0 initial, 1 voluntary (yield), 2 blocked on a mutex, 3 task end
}

// Race is one pair of unordered conflicting accesses.
type Race struct {
	SiteA, SiteB   uint32
	TaskA, TaskB   int
	WriteA, WriteB bool
}

// Config of one concurrent phase.
type Config struct {
	Seed     uint64
	Mode     int
	Period   uint64     // ModeRandom: switch probability 1/Period at each step
	Preempt  []uint64   // ModePCT: global step numbers at which to pre-empt
	Schedule []Decision // ModeReplay
	MaxSteps uint64     // abort (overrun) beyond this many global steps
	Races    bool       // run the vector-clock detector over Access probes
}

// Result of one concurrent phase.
type Result struct {
	Decisions []Decision
	Steps     uint64
	TaskSteps []uint64
	Panics    []any  // per task: recovered panic value of its top frame (nil if none)
	Deadlock  bool   // no runnable task while some are blocked
	Blocked   []int  // tasks blocked at the end
	SelfLock  []int  // tasks that tried to re-acquire a mutex they own
	Leaked    []int  // tasks that ended still owning a mutex
	Overrun   bool   // MaxSteps exceeded
	Races     []Race // first few races found
	RaceCount int
	SwitchSig uint64 // hash of the (task, site) sequence at context switches
	Inconsist string // simulated and real mutex disagreed (harness trouble)
}

type task struct {
	id        int
	wake      chan struct{}
	done      bool
	blocked   *mutexState
	wantWrite bool // blocked waiting for the write lock (readers block it too)
	steps     uint64
	vc        vclock
	owned     int
	fn        func()
	panicV    any
}

type shadow struct {
	wTask  int
	wClock uint32
	wSite  uint32
	hasW   bool
	rClock []uint32 // per task: clock of last read (0 = none)
	rSite  []uint32
}

// Sched is the state of one concurrent phase.
type Sched struct {
	cfg     Config
	tasks   []*task
	cur     *task
	rng     uint64
	steps   uint64
	res     Result
	pcIdx   int
	rpIdx   int
	finish  chan struct{}
	mem     map[unsafe.Pointer]*shadow
	aborted bool
}

func (s *Sched) rand() uint64 { s.rng = splitmix(s.rng); return s.rng }

func (s *Sched) runnable(except *task) []*task {
	var r []*task
	for _, t := range s.tasks {
		if t.done || t == except {
			continue
		}
		if t.blocked != nil && (t.blocked.held || t.blocked.readers > 0 && t.wantWrite) {
			continue
		}
		r = append(r, t)
	}
	return r
}

// RunTasks executes fns as cooperative tasks under cfg and returns when all
// have ended, or a deadlock or overrun was detected. Tasks left blocked are
// leaked (the run is a violation anyway).
func RunTasks(cfg Config, fns []func()) Result {
	if !runActive {
		panic("simrt.RunTasks outside a run")
	}
	s := &Sched{cfg: cfg, rng: splitmix(cfg.Seed ^ 0x5ced), finish: make(chan struct{}, 1)}
	if cfg.Races {
		s.mem = map[unsafe.Pointer]*shadow{}
	}
	n := len(fns)
	for i, fn := range fns {
		t := &task{id: i, wake: make(chan struct{}, 1), fn: fn, vc: make(vclock, n)}
		t.vc[i] = 1
		s.tasks = append(s.tasks, t)
	}
	// Mutexes already known keep their state; their clocks are cleared: the
	// set-up phase happens before every task.
	for _, ms := range mutexes {
		ms.clock, ms.rclock = nil, nil
	}
	for _, t := range s.tasks {
		t := t
		go func() {
			<-t.wake
			defer s.taskEnd(t)
			t.fn()
		}()
	}
	sched = s
	first := s.pick(s.runnable(nil), nil)
	s.cur = first
	s.rpIdx++
	s.res.Decisions = append(s.res.Decisions, Decision{Step: 0, To: first.id})
	first.wake <- struct{}{}
	<-s.finish
	sched = nil
	s.res.Steps = s.steps
	for _, t := range s.tasks {
		s.res.TaskSteps = append(s.res.TaskSteps, t.steps)
		s.res.Panics = append(s.res.Panics, t.panicV)
		if !t.done {
			s.res.Blocked = append(s.res.Blocked, t.id)
		}
	}
	return s.res
}

func (s *Sched) taskEnd(t *task) {
	if r := recover(); r != nil {
		if _, ok := r.(abortSentinel); !ok {
			t.panicV = r
		}
	}
	t.done = true
	if t.owned > 0 {
		s.res.Leaked = append(s.res.Leaked, t.id)
	}
	if s.aborted {
		s.finish <- struct{}{}
		return
	}
	r := s.runnable(nil)
	if len(r) == 0 {
		for _, o := range s.tasks {
			if !o.done {
				s.res.Deadlock = true
			}
		}
		s.finish <- struct{}{}
		return
	}
	next := s.pick(r, nil)
	s.handOff(t, next, 0, false, 3)
}

// pick chooses the next task among r.
func (s *Sched) pick(r []*task, cur *task) *task {
	if s.cfg.Mode == ModeReplay {
		if s.rpIdx < len(s.cfg.Schedule) {
			want := s.cfg.Schedule[s.rpIdx].To
			for _, t := range r {
				if t.id == want {
					return t
				}
			}
		}
		return r[0]
	}
	return r[int(s.rand()%uint64(len(r)))]
}

// handOff gives control to next. If park, the caller t waits to be woken.
func (s *Sched) handOff(t, next *task, site uint32, park bool, kind int) {
	if s.cfg.Mode == ModeReplay && s.rpIdx < len(s.cfg.Schedule) {
		s.rpIdx++
	}
	s.res.Decisions = append(s.res.Decisions, Decision{Step: s.steps, To: next.id, Kind: kind})
	s.res.SwitchSig = splitmix(s.res.SwitchSig ^ uint64(next.id+1)<<32 ^ uint64(site))
	s.cur = next
	next.wake <- struct{}{}
	if park {
		<-t.wake
		if s.aborted {
			panic(abortSentinel{})
		}
	}
}

func (s *Sched) wantSwitch() bool {
	switch s.cfg.Mode {
	case ModePCT:
		if s.pcIdx < len(s.cfg.Preempt) && s.steps >= s.cfg.Preempt[s.pcIdx] {
			s.pcIdx++
			return true
		}
	case ModeRandom:
		p := s.cfg.Period
		if p == 0 {
			p = 1
		}
		return s.rand()%p == 0
	case ModeReplay:
		return s.rpIdx < len(s.cfg.Schedule) && s.cfg.Schedule[s.rpIdx].Kind == 1 && s.cfg.Schedule[s.rpIdx].Step == s.steps
	}
	return false
}

// yield is a scheduling point. force: consider a switch even in
// non-pre-emptive mode (lock operations).
func (s *Sched) yield(site uint32, force bool) {
	t := s.cur
	s.steps++
	t.steps++
	if s.cfg.MaxSteps > 0 && s.steps > s.cfg.MaxSteps {
		s.res.Overrun = true
		s.aborted = true
		panic(abortSentinel{})
	}
	sw := false
	if s.cfg.Mode == ModeReplay {
		sw = s.wantSwitch()
	} else if force && s.cfg.Mode == ModeNonPreemptive {
		sw = s.rand()%2 == 0
	} else {
		sw = s.wantSwitch()
		if force && !sw && s.cfg.Mode == ModePCT {
			sw = s.rand()%4 == 0
		}
	}
	if !sw {
		return
	}
	r := s.runnable(t)
	if len(r) == 0 {
		if s.cfg.Mode == ModeReplay {
			s.rpIdx++ // a minimised schedule may name a task that no longer exists
		}
		return
	}
	next := s.pick(r, t)
	s.handOff(t, next, site, true, 1)
}

// Discard replaces the library's prints to standard output (its debug mode):
// the text is formatted as before and dropped.
func Discard(site uint32, text string) { CntDiscarded += len(text) }

// CntDiscarded counts the bytes the library tried to print.
var CntDiscarded int

// Step is inserted before every statement of the library.
func Step(site uint32) {
	s := sched
	if s == nil {
		return
	}
	CntSteps++
	s.yield(site, false)
}

func stateOf(p unsafe.Pointer) *mutexState {
	ms := mutexes[p]
	if ms == nil {
		ms = &mutexState{}
		mutexes[p] = ms
	}
	return ms
}

func (s *Sched) acquire(site uint32, ms *mutexState, write bool) {
	t := s.cur
	s.yield(site, true)
	for ms.held || (write && ms.readers > 0) {
		if ms.owner == t {
			s.res.SelfLock = append(s.res.SelfLock, t.id)
		}
		t.blocked, t.wantWrite = ms, write
		r := s.runnable(t)
		if len(r) == 0 {
			s.res.Deadlock = true
			s.aborted = true
			// leave every task parked; this goroutine unwinds
			panic(abortSentinel{})
		}
		next := s.pick(r, t)
		s.handOff(t, next, site, true, 2)
	}
	t.blocked = nil
}

// Lock replaces (*sync.Mutex).Lock.
func Lock(site uint32, mu *sync.Mutex) {
	if !runActive {
		mu.Lock()
		return
	}
	CntLocks++
	ms := stateOf(unsafe.Pointer(mu))
	if s := sched; s != nil {
		s.acquire(site, ms, true)
		ms.held, ms.owner = true, s.cur
		s.cur.owned++
		if ms.clock != nil {
			s.cur.vc.join(ms.clock)
		}
	} else {
		if ms.held {
			panic(ErrWouldBlock{site})
		}
		ms.held = true
	}
	if !mu.TryLock() {
		if s := sched; s != nil {
			s.res.Inconsist = fmt.Sprintf("real mutex held while simulated mutex free at site %d", site)
		}
		panic(ErrWouldBlock{site})
	}
}

// Unlock replaces (*sync.Mutex).Unlock.
func Unlock(site uint32, mu *sync.Mutex) {
	if !runActive {
		mu.Unlock()
		return
	}
	ms := stateOf(unsafe.Pointer(mu))
	if !ms.held {
		panic(ErrBadUnlock{site})
	}
	if s := sched; s != nil {
		t := s.cur
		if ms.owner != nil {
			ms.owner.owned--
		}
		ms.clock = t.vc.copyOf()
		t.vc[t.id]++
	}
	ms.held, ms.owner = false, nil
	mu.Unlock()
}

// RWLock replaces (*sync.RWMutex).Lock.
func RWLock(site uint32, mu *sync.RWMutex) {
	if !runActive {
		mu.Lock()
		return
	}
	CntLocks++
	ms := stateOf(unsafe.Pointer(mu))
	if s := sched; s != nil {
		s.acquire(site, ms, true)
		ms.held, ms.owner = true, s.cur
		s.cur.owned++
		if ms.clock != nil {
			s.cur.vc.join(ms.clock)
		}
		if ms.rclock != nil {
			s.cur.vc.join(ms.rclock)
		}
	} else {
		if ms.held || ms.readers > 0 {
			panic(ErrWouldBlock{site})
		}
		ms.held = true
	}
	if !mu.TryLock() {
		panic(ErrWouldBlock{site})
	}
}

// RWUnlock replaces (*sync.RWMutex).Unlock.
func RWUnlock(site uint32, mu *sync.RWMutex) {
	if !runActive {
		mu.Unlock()
		return
	}
	ms := stateOf(unsafe.Pointer(mu))
	if !ms.held {
		panic(ErrBadUnlock{site})
	}
	if s := sched; s != nil {
		t := s.cur
		if ms.owner != nil {
			ms.owner.owned--
		}
		ms.clock = t.vc.copyOf()
		t.vc[t.id]++
	}
	ms.held, ms.owner = false, nil
	mu.Unlock()
}

// RLock replaces (*sync.RWMutex).RLock.
func RLock(site uint32, mu *sync.RWMutex) {
	if !runActive {
		mu.RLock()
		return
	}
	CntLocks++
	ms := stateOf(unsafe.Pointer(mu))
	if s := sched; s != nil {
		s.acquire(site, ms, false)
		ms.readers++
		s.cur.owned++
		if ms.clock != nil {
			s.cur.vc.join(ms.clock)
		}
	} else {
		if ms.held {
			panic(ErrWouldBlock{site})
		}
		ms.readers++
	}
	if !mu.TryRLock() {
		panic(ErrWouldBlock{site})
	}
}

// RUnlock replaces (*sync.RWMutex).RUnlock.
func RUnlock(site uint32, mu *sync.RWMutex) {
	if !runActive {
		mu.RUnlock()
		return
	}
	ms := stateOf(unsafe.Pointer(mu))
	if ms.readers <= 0 {
		panic(ErrBadUnlock{site})
	}
	if s := sched; s != nil {
		t := s.cur
		t.owned--
		if ms.rclock == nil {
			ms.rclock = t.vc.copyOf()
		} else {
			ms.rclock.join(t.vc)
		}
		t.vc[t.id]++
	}
	ms.readers--
	mu.RUnlock()
}

// HeldMutexes reports how many tracked mutexes are currently held (used by
// the engine after a call returned or panicked: a held mutex with no call in
// progress is a leaked lock).
func HeldMutexes() int {
	n := 0
	for _, ms := range mutexes {
		if ms.held || ms.readers > 0 {
			n++
		}
	}
	return n
}

// ---------------------------------------------------------------------------
// race detector over Access probes (FastTrack-style, full vector clocks)

func (s *Sched) report(a, b uint32, ta, tb int, wa, wb bool) {
	s.res.RaceCount++
	if len(s.res.Races) < 8 {
		s.res.Races = append(s.res.Races, Race{a, b, ta, tb, wa, wb})
	}
}

// Access is inserted before statements that touch a field of a shared struct.
func Access[T any](site uint32, p *T, write bool) {
	s := sched
	if s == nil || s.mem == nil {
		return
	}
	CntAccess++
	t := s.cur
	key := unsafe.Pointer(p)
	sh := s.mem[key]
	if sh == nil {
		sh = &shadow{rClock: make([]uint32, len(s.tasks)), rSite: make([]uint32, len(s.tasks))}
		s.mem[key] = sh
	}
	if sh.hasW && sh.wTask != t.id && sh.wClock > t.vc[sh.wTask] {
		s.report(sh.wSite, site, sh.wTask, t.id, true, write)
	}
	if write {
		for o, c := range sh.rClock {
			if c != 0 && o != t.id && c > t.vc[o] {
				s.report(sh.rSite[o], site, o, t.id, false, true)
			}
		}
		sh.hasW, sh.wTask, sh.wClock, sh.wSite = true, t.id, t.vc[t.id], site
		for o := range sh.rClock {
			sh.rClock[o] = 0
		}
	} else {
		sh.rClock[t.id], sh.rSite[t.id] = t.vc[t.id], site
	}
}
